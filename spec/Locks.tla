------------------------------- MODULE Locks -------------------------------
(***************************************************************************)
(* LOCK LEVEL of stretto: which locks a critical section takes, in which   *)
(* order, and what that means when several threads run such sections at    *)
(* once.  Cache.tla treats every critical section as one atomic step; this *)
(* module looks inside, at the one thing atomicity hides: a section that   *)
(* waits for a lock while it holds another (or the same one).              *)
(*                                                                         *)
(* Locks (src/store.rs, src/ttl.rs, src/policy.rs, src/ring.rs):           *)
(*   shard[i]  parking_lot::RwLock, 256 of them, one per index % 256       *)
(*             -- a ValueRef / ValueRefMut returned by get / get_mut IS a  *)
(*             read / write guard on it and lives as long as the caller    *)
(*             keeps it                                                    *)
(*   em        RwLock of the expiration buckets, always taken for writing  *)
(*   policy    Mutex of the LFU policy                                     *)
(*   ring      Mutex of a lookup ring stripe                               *)
(*                                                                         *)
(* parking_lot's RwLock is FAIR: once a writer waits, new readers queue    *)
(* behind it (that is what keeps writers from starving).  Consequence: a   *)
(* thread that holds a read guard and asks for a second read guard on the  *)
(* same lock deadlocks with any writer that arrived in between -- defect   *)
(* D10 (get_ttl), repaired by commit 9d7bd05, kept here as the witness      *)
(* program "get_ttl_old".                                                  *)
(*                                                                         *)
(* A PROGRAM is the lock-relevant skeleton of one critical section: a      *)
(* sequence of <<"acq", role, mode>> / <<"rel", role>>.  Roles: "s1" a     *)
(* shard taken while the thread holds no other shard, "s2" a different     *)
(* shard taken while it holds one, "same" the very lock it already holds,  *)
(* "em", "pol", "ring".  Programs come from two sources: the catalogue     *)
(* transcribed from the code (MC_Locks.tla), and the programs OBSERVED in  *)
(* the real code by the traced locks of hooks H9 (one per recorded step of *)
(* the harness; MC_Locks_observed.cfg) -- so the model composes, under     *)
(* every interleaving, exactly the critical sections the implementation    *)
(* has.                                                                    *)
(*                                                                         *)
(* Discipline == the rule the code follows (and Locks_Trace.tla checks on  *)
(* every recorded acquisition): a thread asks for a lock only while it     *)
(* holds nothing, or while it holds exactly one shard and asks for em.     *)
(* TLC checks: programs obeying it never deadlock (CHECK_DEADLOCK), with   *)
(* the fair read-write semantics; the witness config shows the check bites.*)
(***************************************************************************)
EXTENDS Naturals, Sequences, FiniteSets, TLC

CONSTANTS Threads,      \* thread ids
          Shards,       \* concrete shard locks (2 are enough: "the same" and "another")
          Programs,     \* set of programs (sequences of ops)
          MaxRuns       \* programs per thread

VARIABLES prog,         \* [Threads -> program being run, <<>> when between programs]
          pc,           \* [Threads -> index of the next op]
          bind,         \* [Threads -> sequence of <<role, lock>> currently held, in order of acquisition]
          readers,      \* [Lock -> [Threads -> how many read guards]]
          writer,       \* [Lock -> holding thread or 0]
          waitW,        \* [Lock -> set of threads waiting to write]
          runs          \* [Threads -> programs started]

vars == <<prog, pc, bind, readers, writer, waitW, runs>>

Lock == Shards \cup {"em", "pol", "ring"}
NoThread == 0

Init == /\ prog = [t \in Threads |-> <<>>] /\ pc = [t \in Threads |-> 1]
        /\ bind = [t \in Threads |-> <<>>]
        /\ readers = [L \in Lock |-> [t \in Threads |-> 0]]
        /\ writer = [L \in Lock |-> NoThread]
        /\ waitW = [L \in Lock |-> {}]
        /\ runs = [t \in Threads |-> 0]

HeldLocks(t) == { bind[t][j][2] : j \in 1 .. Len(bind[t]) }
HeldShards(t) == HeldLocks(t) \cap Shards
Op(t) == prog[t][pc[t]]
Running(t) == prog[t] # <<>> /\ pc[t] <= Len(prog[t])

\* concrete locks a role may stand for, given what the thread holds
Candidates(t, role) ==
    CASE role = "s1" -> Shards
      [] role = "s2" -> Shards \ HeldShards(t)
      [] role = "same" -> IF bind[t] = <<>> THEN {} ELSE {bind[t][Len(bind[t])][2]}
      [] OTHER -> {role}

NoReaders(L) == \A u \in Threads : readers[L][u] = 0

Start(t, p) ==
    /\ prog[t] = <<>> /\ runs[t] < MaxRuns
    /\ prog' = [prog EXCEPT ![t] = p] /\ pc' = [pc EXCEPT ![t] = 1]
    /\ runs' = [runs EXCEPT ![t] = @ + 1]
    /\ UNCHANGED <<bind, readers, writer, waitW>>

\* read acquisition: refused while a writer holds the lock OR WAITS for it (fairness)
AcqRead(t, L) ==
    /\ writer[L] = NoThread /\ waitW[L] = {}
    /\ readers' = [readers EXCEPT ![L][t] = @ + 1]
    /\ bind' = [bind EXCEPT ![t] = Append(@, <<Op(t)[2], L>>)]
    /\ pc' = [pc EXCEPT ![t] = @ + 1]
    /\ UNCHANGED <<prog, writer, waitW, runs>>

\* write (and mutex) acquisition: granted when nobody holds the lock; otherwise the thread registers as waiting
AcqWrite(t, L) ==
    IF writer[L] = NoThread /\ NoReaders(L)
    THEN /\ writer' = [writer EXCEPT ![L] = t]
         /\ waitW' = [waitW EXCEPT ![L] = @ \ {t}]
         /\ bind' = [bind EXCEPT ![t] = Append(@, <<Op(t)[2], L>>)]
         /\ pc' = [pc EXCEPT ![t] = @ + 1]
         /\ UNCHANGED <<prog, readers, runs>>
    ELSE /\ t \notin waitW[L]
         /\ waitW' = [waitW EXCEPT ![L] = @ \cup {t}]
         /\ UNCHANGED <<prog, pc, bind, readers, writer, runs>>

\* a thread that registered for one concrete lock keeps asking for that one
Pending(t) == { L \in Lock : t \in waitW[L] }

Acquire(t) ==
    /\ Running(t) /\ Op(t)[1] = "acq"
    /\ \E L \in (IF Pending(t) # {} THEN Pending(t) ELSE Candidates(t, Op(t)[2])) :
          IF Op(t)[3] = "r" THEN AcqRead(t, L) ELSE AcqWrite(t, L)

\* release of the most recent guard bound to that role
Release(t) ==
    /\ Running(t) /\ Op(t)[1] = "rel"
    /\ \E j \in 1 .. Len(bind[t]) :
          /\ bind[t][j][1] = Op(t)[2]
          /\ \A i \in (j + 1) .. Len(bind[t]) : bind[t][i][1] # Op(t)[2]
          /\ LET L == bind[t][j][2] IN
             /\ IF writer[L] = t THEN writer' = [writer EXCEPT ![L] = NoThread] /\ UNCHANGED readers
                ELSE readers' = [readers EXCEPT ![L][t] = @ - 1] /\ UNCHANGED writer
             /\ bind' = [bind EXCEPT ![t] = SubSeq(@, 1, j - 1) \o SubSeq(@, j + 1, Len(@))]
    /\ pc' = [pc EXCEPT ![t] = @ + 1]
    /\ UNCHANGED <<prog, waitW, runs>>

Finish(t) ==
    /\ prog[t] # <<>> /\ pc[t] > Len(prog[t])
    /\ prog' = [prog EXCEPT ![t] = <<>>]
    /\ UNCHANGED <<pc, bind, readers, writer, waitW, runs>>

AllDone == \A t \in Threads : prog[t] = <<>> /\ runs[t] = MaxRuns
Terminated == AllDone /\ UNCHANGED vars

Next == (\E t \in Threads : (\E p \in Programs : Start(t, p)) \/ Acquire(t) \/ Release(t) \/ Finish(t)) \/ Terminated

Spec == Init /\ [][Next]_vars

----------------------------------------------------------------------------
\* mutual exclusion of the lock model itself
LockOK == \A L \in Lock : writer[L] # NoThread => NoReaders(L)

\* the rule the code follows: ask for a lock only while holding nothing, or while holding exactly one shard and asking for em
Allowed(heldRoles, role) ==
    \/ heldRoles = <<>>
    \/ Len(heldRoles) = 1 /\ heldRoles[1] \in {"s1", "s2"} /\ role = "em"
Discipline ==
    \A t \in Threads : (Running(t) /\ Op(t)[1] = "acq") =>
        Allowed([j \in 1 .. Len(bind[t]) |-> bind[t][j][1]], Op(t)[2])

\* every program returns what it took
Balanced == \A t \in Threads : (prog[t] = <<>>) => bind[t] = <<>>
=============================================================================
