SPECIFICATION Spec
CONSTANTS
  E = 3
  LOCS = 2
  Hashes <- SomeHashes
INVARIANTS TypeOK NoFalseNegative ResetEmpties BitsAccounted BitBound CoAConsistent FalsePositiveOnlyByCollision
CHECK_DEADLOCK FALSE
