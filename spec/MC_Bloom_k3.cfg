SPECIFICATION Spec
CONSTANTS
  E = 4
  LOCS = 3
  Hashes <- SixHashes
INVARIANTS TypeOK NoFalseNegative ResetEmpties BitsAccounted BitBound CoAConsistent FalsePositiveOnlyByCollision
CHECK_DEADLOCK FALSE
