SPECIFICATION Spec
CONSTANTS
  Waiters = {1, 2}
  Variant = "noflag"
INVARIANTS TypeOK NoOrphan
PROPERTIES EveryWaiterReturns
CHECK_DEADLOCK FALSE
