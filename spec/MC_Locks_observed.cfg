SPECIFICATION Spec
CONSTANTS
  Threads = {1, 2, 3}
  Shards = {"sA", "sB"}
  Programs <- Observed
  MaxRuns = 1
INVARIANTS LockOK Discipline Balanced
