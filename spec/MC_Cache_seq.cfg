SPECIFICATION MCSpec
CONSTANTS
  Clients = {1}
  Idx = {1, 2}
  Cfl = {0, 1, 2}
  Val = {1, 2, 3, 4}
  SecUnits = 4
  Nil = Nil
  MCConf <- ConfSeq
  MCKeys <- KeysColl
  CostSet = {0, 1}
  TtlSet = {0}
  MaxCostSet = {4}
  SetMaxSet = {0, 2}
  AdvSet = {}
  Budget = 4
  Ops = {"insert", "insert_if_present", "remove", "get", "clear", "set_max"}
  TickOn = FALSE
  MaxNow = 0
INVARIANTS UsedIsSum Bounded Agree Conservation NeverTwice NothingLost ResidentOwned IndexExact NoOrphan MetricsLaws MetricsCounts NoLoss CondNeverCreates ClearEmpties ChargeFormula
CHECK_DEADLOCK FALSE
