SPECIFICATION Spec
INVARIANTS Involution MinusOne Injective
CHECK_DEADLOCK FALSE
