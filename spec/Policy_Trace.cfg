SPECIFICATION TSpec
CONSTANTS
  Keys <- TraceKeys
  Samples = 5
  Nil = Nil
INVARIANTS UsedIsSum Bounded AdmissionBound RoomMeansNoVictims VictimsGone NotAddedNotCharged
POSTCONDITION Accepted
CHECK_DEADLOCK FALSE
