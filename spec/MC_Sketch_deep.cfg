SPECIFICATION MCSpec
CONSTANTS
  Depth = 4
  NumCountersSet = {1, 2, 3, 4, 5, 6, 7, 8}
  MaxOps = 11
INVARIANTS InvWellFormed InvIndex InvNeverUndercount InvFreshZero InvWBound
PROPERTIES PropNoSpill PropHalving PropResetAt PropClear
CHECK_DEADLOCK FALSE
