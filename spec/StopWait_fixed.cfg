SPECIFICATION Spec
CONSTANTS
  Waiters = {1, 2}
  Variant = "fixed"
INVARIANTS TypeOK NoOrphan
PROPERTIES EveryWaiterReturns
CHECK_DEADLOCK FALSE
