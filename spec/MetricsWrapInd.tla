-------------------------- MODULE MetricsWrapInd --------------------------
(***************************************************************************)
(* UNBOUNDED companion of MetricsWrap.tla for Apalache: the same actions   *)
(* at the code's real width (Mod = 2^64, 64-bit deltas up to 2^63-1), no   *)
(* bound on the number of operations.  IndInv is inductive:                *)
(*   Init => IndInv                (apalache-mc check --length=0)          *)
(*   IndInv /\ Next => IndInv'     (--init=IndInit --length=1)             *)
(* so GetWraps / GetExact of MetricsWrap.tla hold after ANY number of      *)
(* adds, two's-complement subtractions and resets, whichever stripes they  *)
(* go to -- what TLC decides for <= 5 operations of width 16.              *)
(* Three stripes (the sum is written out; the argument is per stripe and   *)
(* does not depend on their number).                                       *)
(***************************************************************************)
EXTENDS Integers

Mod == 2^64
MaxDelta == 2^63 - 1
Stripes == {1, 2, 3}

VARIABLES
  \* @type: Int -> Int;
  stripe,
  \* @type: Int;
  net

vars == <<stripe, net>>

Init == stripe = [s \in Stripes |-> 0] /\ net = 0

Add(s, d) == /\ stripe' = [stripe EXCEPT ![s] = (@ + d) % Mod]
             /\ net' = net + d
Sub(s, d) == /\ stripe' = [stripe EXCEPT ![s] = (@ + (Mod - d)) % Mod]
             /\ net' = net - d
Reset == stripe' = [s \in Stripes |-> 0] /\ net' = 0

Next == \/ \E s \in Stripes : \E d \in Int :
             /\ d >= 1 /\ d <= MaxDelta
             /\ (Add(s, d) \/ Sub(s, d))
        \/ Reset

PlainSum == stripe[1] + stripe[2] + stripe[3]
WrapSum == PlainSum % Mod

TypeOK == /\ DOMAIN stripe = Stripes
          /\ \A s \in Stripes : stripe[s] >= 0 /\ stripe[s] < Mod
GetWraps == WrapSum = net % Mod
GetExact == (net >= 0 /\ net < Mod) => WrapSum = net
IndInv == TypeOK /\ GetWraps /\ GetExact

\* an arbitrary state satisfying the invariant (the induction hypothesis)
IndInit == /\ stripe \in [Stripes -> Int]
           /\ net \in Int
           /\ IndInv
\* the pre-D13 requirement, for the witness: NOT inductive, not even an invariant
PlainSumFits == (net >= 0 /\ net < Mod) => PlainSum < Mod
=============================================================================
