------------------------------ MODULE KeyHash ------------------------------
(***************************************************************************)
(* KeyBuilder contract (src/lib.rs): a key always maps to the same         *)
(* (index, conflict) pair, however it is borrowed; TransparentKeyBuilder   *)
(* maps an integer key to itself (its 64-bit two's-complement value) with  *)
(* conflict 0, so distinct integer keys of one type never collide.         *)
(*                                                                         *)
(* 64-bit values are triples of limbs <<21 bits, 21 bits, 22 bits>>        *)
(* (TLC integers are 32 bit).                                              *)
(***************************************************************************)
EXTENDS Naturals, Sequences, FiniteSets

L1 == 2097152   \* 2^21
L3 == 4194304   \* 2^22

IsLimbs(x) == x[1] \in 0 .. L1 - 1 /\ x[2] \in 0 .. L1 - 1 /\ x[3] \in 0 .. L3 - 1
Zero == <<0, 0, 0>>

\* 2^64 - m  (m # 0), limb-wise with borrow
Neg(m) ==
    LET c == (L3 - m[3]) % L3
        b1 == IF m[3] > 0 THEN 1 ELSE 0
        b == (2 * L1 - m[2] - b1) % L1
        b2 == IF m[2] + b1 > 0 THEN 1 ELSE 0
        a == (2 * L1 - m[1] - b2) % L1
    IN <<a, b, c>>

\* the u64 an integer key (sign, magnitude) widens to: `k as u64` sign-extends
ToU64(neg, mag) == IF neg /\ mag # Zero THEN Neg(mag) ELSE mag

\* TransparentKeyBuilder: index = the key itself, conflict = 0
TransparentOK(neg, mag, idx, cfl) == idx = ToU64(neg, mag) /\ cfl = Zero
=============================================================================
