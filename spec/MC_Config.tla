----------------------------- MODULE MC_Config -----------------------------
EXTENDS Config
VARIABLES nc, max, buf
Init == nc \in 0 .. 70 /\ max \in {-5, 0, 1, 2, 100} /\ buf \in {0, 1, 2}
Next == UNCHANGED <<nc, max, buf>>
Spec == Init /\ [][Next]_<<nc, max, buf>>
AcceptedWellFormed == (FinalizeResult(nc, max, buf) = "ok") => WellFormed(nc)
RejectsZero == /\ (nc = 0) => FinalizeResult(nc, max, buf) = "InvalidNumCounters"
               /\ (nc # 0 /\ max = 0) => FinalizeResult(nc, max, buf) = "InvalidMaxCost"
               /\ (nc # 0 /\ max # 0 /\ buf = 0) => FinalizeResult(nc, max, buf) = "InvalidBufferSize"
               /\ (nc # 0 /\ max # 0 /\ buf # 0) => FinalizeResult(nc, max, buf) = "ok"
=============================================================================
