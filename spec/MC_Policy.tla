----------------------------- MODULE MC_Policy -----------------------------
(* Exhaustive exploration of Policy.tla: every sequence (bounded length) of add / update /
   remove / clear / set-max / popularity changes over a few keys, every sample choice and
   every tie-break in the eviction loop. *)
EXTENDS Policy

CONSTANTS CostSet, MaxSet, EstSet, MaxOps
VARIABLE ops

AllSamples(c, prev) ==
    \* every sequence extending prev with distinct residents up to the required length
    LET need == Min2(Samples, Len(prev) + Cardinality(Residents(c))) - Len(prev)
        R == Residents(c)
    IN { prev \o s : s \in { t \in [1 .. need -> { <<k, c[k]>> : k \in R }] :
                              \A i, j \in 1 .. need : i # j => t[i][1] # t[j][1] } }

MCInit ==
    /\ costs = [k \in Keys |-> Nil] /\ used = 0 /\ slack = 0 /\ ev = Nil
    /\ maxCost \in MaxSet
    /\ est \in [Keys -> EstSet]
    /\ ops = 0

MCRound ==
    /\ ev # Nil /\ ev.phase = "round" /\ UNCHANGED ops
    /\ \E s \in AllSamples(costs, ev.sample) : \E v \in Keys : Round(s, v)

MCOp ==
    /\ ops < MaxOps /\ ops' = ops + 1
    /\ \/ \E k \in Keys, c \in CostSet : AddOversize(k, c) \/ AddPresent(k, c) \/ AddRoom(k, c) \/ AddBegin(k, c)
       \/ \E k \in Keys, c \in CostSet : Update(k, c)
       \/ \E k \in Keys : Remove(k)
       \/ Clear
       \/ \E m \in MaxSet : SetMax(m)

MCNext == MCRound \/ MCOp

MCSpec == MCInit /\ [][MCNext]_<<pvars, ops>>

\* vacuity witnesses (each expected to be VIOLATED, i.e. the situation is reachable)
WitnessMultiVictim == ~(ev # Nil /\ ev.phase = "done" /\ ev.added /\ Len(ev.victims) >= 2)
WitnessRejectAfterEvict == ~(ev # Nil /\ ev.phase = "done" /\ ev.path = "rejected" /\ Len(ev.victims) >= 1)
WitnessOverBudget == ~(used > maxCost)
=============================================================================
