------------------------------- MODULE Config -------------------------------
(***************************************************************************)
(* Builder validation and dimensioning (src/cache/sync.rs finalize,        *)
(* src/cache/async.rs finalize, src/sketch.rs, src/bbloom.rs).             *)
(* num_counters, max_cost or insert-buffer size of zero are rejected, in   *)
(* that order; everything else is accepted and must yield well-formed      *)
(* dimensions for the estimator (Sketch.tla, Bloom.tla).                   *)
(***************************************************************************)
EXTENDS Integers, Bloom

FinalizeResult(nc, max, buf) ==
    IF nc = 0 THEN "InvalidNumCounters"
    ELSE IF max = 0 THEN "InvalidMaxCost"
    ELSE IF buf = 0 THEN "InvalidBufferSize"
    ELSE "ok"

RECURSIVE NextPow2From(_, _)
NextPow2From(n, p) == IF p >= n THEN p ELSE NextPow2From(n, 2 * p)
Counters(n) == IF NextPow2From(n, 1) < 2 THEN 2 ELSE NextPow2From(n, 1)
SketchBytes(n) == Counters(n) \div 2
SketchMask(n) == Counters(n) - 1

\* what every operation of Sketch / Bloom needs from an accepted configuration
WellFormed(nc) ==
    /\ SketchBytes(nc) >= 1
    /\ \A idx \in 0 .. SketchMask(nc) : idx \div 2 < SketchBytes(nc)     \* every maskable index addresses a byte
    /\ ExpLo(nc, 2000) >= 9 /\ Locs(2000) >= 1                             \* doorkeeper: TinyLFU uses rate 0.01
=============================================================================
