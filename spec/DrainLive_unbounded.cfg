SPECIFICATION Spec
CONSTANTS
  Cap = 3
  BoundedDrain = FALSE
INVARIANT TypeOK
PROPERTIES CloseReturns DrainEnds
CHECK_DEADLOCK FALSE
