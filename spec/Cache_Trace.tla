---------------------------- MODULE Cache_Trace ----------------------------
(***************************************************************************)
(* Validates traces recorded from the real Cache / AsyncCache under the    *)
(* baton scheduler (harness: `vh cache`) against Cache.tla.                *)
(*                                                                         *)
(* One recorded event = one critical section of the real code = one action *)
(* of Cache.tla, bound to the recorded arguments.  After every event the   *)
(* recorded result, the callbacks that fired and the projected state of    *)
(* the implementation (resident entries, expiration buckets, policy        *)
(* charges, used, max_cost, buffer / clear-queue lengths, closed flags,    *)
(* metrics) must EQUAL the specification's.  Which parts of the state are  *)
(* compared is the constant Cmp, so that a check of one property is not    *)
(* stopped by a deviation that belongs to another property.                *)
(* All invariants of Cache.tla are evaluated on every state of the trace.  *)
(***************************************************************************)
EXTENDS Cache, Json, IOUtils
LOCAL INSTANCE Config
\* the TinyLFU / sampled-LFU rule (C07), re-run on the rounds recorded inside policy.add
LOCAL INSTANCE PolicyRule WITH RNil <- Nil, RSamples <- 5

CONSTANT Cmp      \* subset of {"store","em","costs","chan","life","met","cbs","out"}

VARIABLE l
TraceVal == 1 .. 400
CmpAll == {"store", "em", "costs", "chan", "life", "met", "cbs", "out", "vttl", "pop", "rounds"}
Rec == ndJsonDeserialize(IOEnv.TRACE)
tvars == <<vars, l>>

Ev == Rec[l]
Is(x) == l <= Len(Rec) /\ Ev.ev = x /\ l' = l + 1
K == <<Ev.k[1], Ev.k[2]>>

\* ---- recorded projection of the implementation state
StoreOf(p) == [i \in Idx |->
    IF \E j \in 1 .. Len(p.store) : p.store[j].i = i
    THEN LET e == p.store[CHOOSE j \in 1 .. Len(p.store) : p.store[j].i = i]
         IN [cfl |-> e.c, val |-> e.v, rev |-> e.r, d |-> e.d, at |-> e.at]
    ELSE Nil]
EmOf(p) == { [b |-> p.em[j][1], i |-> p.em[j][2], c |-> p.em[j][3]] : j \in 1 .. Len(p.em) }
CostsOf(p) == [i \in Idx |->
    IF \E j \in 1 .. Len(p.costs) : p.costs[j][1] = i
    THEN p.costs[CHOOSE j \in 1 .. Len(p.costs) : p.costs[j][1] = i][2]
    ELSE Nil]
MetOf(p) == [hit |-> p.met.hit, miss |-> p.met.miss, keyAdd |-> p.met.keyAdd, keyUpd |-> p.met.keyUpd,
             keyEvict |-> p.met.keyEvict, costAdd |-> p.met.costAdd, costEvict |-> p.met.costEvict,
             dropSets |-> p.met.dropSets, rejectSets |-> p.met.rejectSets]
CbsOf(e) == [j \in 1 .. Len(e.cbs) |-> [kind |-> e.cbs[j].kind, val |-> e.cbs[j].val, cost |-> e.cbs[j].cost]]
\* on_exit carries no cost: the specification writes 0 there as well

PostOK ==
    LET p == Ev.post IN
    /\ ("store" \in Cmp) => store' = StoreOf(p)
    /\ ("em" \in Cmp) => em' = EmOf(p)
    /\ ("costs" \in Cmp) => (costs' = CostsOf(p) /\ used' = p.used /\ maxCost' = p.max)
    /\ ("chan" \in Cmp /\ ~Ev.racy) => ((ProcAlive' => (Len(buf') = p.buf /\ clearQ' = p.clearq))
                            /\ (Flavor = "async" /\ ProcAlive' => stopQ' = p.stopq))
    /\ ("life" \in Cmp) => (closed' = p.closed /\ pol'.closed = p.polclosed)
    /\ ("met" \in Cmp /\ ~Ev.nomet) => met' = MetOf(p)
    \* ratio() is hits / (hits + misses), 0 when there were no lookups (compared at 1e-6, hits < 2000)
    /\ ("met" \in Cmp /\ ~Ev.nomet /\ p.met.hit < 2000) =>
          (p.met.ratio_ppm - (IF p.met.hit + p.met.miss = 0 THEN 0 ELSE (p.met.hit * 1000000) \div (p.met.hit + p.met.miss))) \in {0, 1}
    \* no entry is ever tracked by this version (track_admission), so the life-expectancy histogram stays empty
    /\ ("met" \in Cmp) => p.met.life_count = 0
    /\ ("cbs" \in Cmp) => cbs' = CbsOf(Ev)
    /\ ("store" \in Cmp) => Cardinality({ i \in Idx : store'[i] # Nil }) = p.len

\* the same comparison for events that change nothing
PostOKStutter ==
    LET p == Ev.post IN
    /\ ("store" \in Cmp) => store = StoreOf(p)
    /\ ("em" \in Cmp) => em = EmOf(p)
    /\ ("costs" \in Cmp) => (costs = CostsOf(p) /\ used = p.used /\ maxCost = p.max)
    /\ ("chan" \in Cmp) => (ProcAlive => (Len(buf) = p.buf /\ clearQ = p.clearq))
    /\ ("life" \in Cmp) => (closed = p.closed /\ pol.closed = p.polclosed)
    /\ ("met" \in Cmp /\ ~Ev.nomet) => met = MetOf(p)

OutOK == ("out" \in Cmp) =>
    IF Ev.out.t = "pending" THEN res' = Nil ELSE (res' # Nil /\ res'.out = Ev.out /\ res'.c = Ev.c)

C == Ev.c

---------------------------------------------------------------------------
TInit ==
    /\ l = 1
    /\ Init
    /\ conf = [bufcap |-> 0, itemsize |-> 0, flavor |-> "sync", coster |-> "zero", validator |-> "always"]
    /\ maxCost = 0 /\ now = 0

\* a new cache instance: everything starts afresh
TNewInstance ==
    /\ Is("Init")
    /\ conf' = [bufcap |-> Ev.bufcap, itemsize |-> Ev.itemsize, flavor |-> Ev.flavor,
                coster |-> Ev.coster, validator |-> Ev.validator]
    /\ maxCost' = Ev.max /\ now' = Ev.now
    /\ store' = [i \in Idx |-> Nil] /\ em' = {} /\ costs' = [i \in Idx |-> Nil] /\ used' = 0
    /\ buf' = <<>> /\ clearQ' = 0 /\ proc' = IdleProc /\ cli' = [c \in Clients |-> IdleCli]
    /\ closed' = FALSE /\ pol' = [alive |-> TRUE, closed |-> FALSE, q |-> 0, handles |-> TRUE] /\ stopQ' = 0 /\ wdone' = {}
    /\ met' = ZeroMet /\ cbs' = <<>> /\ res' = Nil
    /\ outcnt' = [v \in Val |-> 0] /\ accepted' = {} /\ owner' = [v \in Val |-> Nil]
    /\ dropped' = {} /\ lost' = {} /\ slack' = 0 /\ errSeen' = FALSE /\ orphans' = {} /\ kf' = {} /\ gh' = GhInit
    /\ Ev.clients <= Cardinality(Clients)

Step(A) == A /\ PostOK /\ OutOK

Victims(a) == [j \in 1 .. Len(a.victims) |-> <<a.victims[j][1], a.victims[j][2]>>]

TClient ==
    \/ Is("InsBegin") /\ Step(InsBegin(C, K, Ev.v, Ev.cost, Ev.d, Ev.only))
    \/ Is("InsSend") /\ Step(InsSend(C))
    \/ /\ Is("Get") /\ Step(Get(C, K))
       \* the remaining ttl read through the returned ValueRef
       /\ (("vttl" \in Cmp /\ Ev.out.t = "val") => Ev.vttl = TtlOf(store, K, now))
    \/ Is("GetMut") /\ Step(GetMut(C, K))
    \/ Is("GetTtl") /\ Step(GetTtl(C, K))
    \/ Is("RemStore") /\ Step(RemStore(C, K))
    \/ Is("RemSend") /\ Step(RemSend(C))
    \/ Is("RemSendA") /\ Step(RemSendA(C))
    \/ Is("RemBlock") /\ Step(RemBlock(C))
    \/ Is("RemRet") /\ Step(RemRet(C))
    \/ Is("ClsStopLate") /\ Step(ClsStopLate(C))
    \/ Is("ClsPolLate") /\ Step(ClsPolLate(C))
    \/ Is("ClrSend") /\ Step(ClrSend(C, Ev.op))
    \/ /\ Is("ClrPolicy") /\ Step(ClrPolicy(C))
       \* policy.clear() also empties the popularity estimator: a cleared cache is a fresh one
       /\ ("pop" \in Cmp) => (Ev.post.tinyw = 0 /\ \A j \in 1 .. Len(Ev.post.est) : Ev.post.est[j][2] = 0)
    \/ Is("ClrStore") /\ Step(ClrStore(C))
    \/ Is("ClrMetrics") /\ Step(ClrMetrics(C))
    \/ Is("ClsStopSend") /\ Step(ClsStopSend(C))
    \/ Is("ClsStopFail") /\ Step(ClsStopFail(C))
    \/ Is("ClsPol") /\ Step(ClsPol(C))
    \/ Is("ClsPolSend") /\ Step(ClsPolSend(C))
    \/ Is("ClsPolFail") /\ Step(ClsPolFail(C))
    \/ Is("ClsPolFlag") /\ Step(ClsPolFlag(C))
    \/ Is("ClsFlag") /\ Step(ClsFlag(C))
    \/ Is("WaitSend") /\ Step(WaitSend(C))
    \/ Is("WaitBlock") /\ Step(WaitBlock(C))
    \/ Is("WaitRet") /\ Step(WaitRet(C))
    \/ Is("SetMax") /\ Step(SetMax(C, Ev.m))
    \/ Is("Observe") /\ Step(Observe(C))

TProc ==
    \/ /\ Is("PNewAdd") /\ Step(PNewAdd(Ev.add.path, Victims(Ev.add), Ev.add.added))
       /\ Ev.add.k = proc'.item.i /\ Ev.add.cost = proc'.cost
       \* C07 inside the cache: every recorded round of the eviction loop is a legal round of the rule from the
       \* charges of the pre-state, with the estimates the code used (fed by real lookups and bumps)
       /\ ("rounds" \in Cmp /\ Ev.add.path \in {"evicted", "rejected"}) =>
            /\ RSameIncHits(Ev.rounds)
            /\ LET rr == RLoop(costs, used, maxCost, Ev.rounds, 1, 0, <<>>, Ev.add.k, Ev.add.cost) IN
                 /\ rr.ok /\ rr.added = Ev.add.added
                 /\ rr.victims = Victims(Ev.add)
       /\ ("rounds" \in Cmp /\ Ev.add.path \notin {"evicted", "rejected"}) => Len(Ev.rounds) = 0
    \/ Is("PNewStore") /\ Step(PNewStore)
    \/ Is("PVictim") /\ Step(PVictim)
    \/ Is("PUpd") /\ Step(PUpd)
    \/ Is("PDel") /\ Step(PDel)
    \/ Is("PDelPolicy") /\ Step(PDelPolicy)
    \/ Is("PWait") /\ Step(PWait)
    \/ Is("PClrTake") /\ Step(PClrTake)
    \/ Is("PCleanItem") /\ Step(PCleanItem)
    \/ Is("PCleanEnd") /\ Step(PCleanEnd)
    \/ Is("PTick") /\ Step(PTick)
    \/ Is("PCleanupKey") /\ Step(PCleanupKey(Ev.k))
    \/ Is("PCleanupDone") /\ Step(PCleanupDone)
    \/ Is("PStop") /\ Step(PStop(IF Flavor = "sync" THEN C ELSE 1))
    \/ Is("LStop") /\ Step(LStop(IF Flavor = "sync" THEN C ELSE 1))

TEnv ==
    \/ Is("Advance") /\ Step(Advance(Ev.dt)) /\ now' = Ev.now
    \* an arm that was not ready, the end of a run: nothing happens, but the state must still agree
    \* popularity is abstract in Cache.tla: a recorded change of it is a stuttering step
    \/ Is("Bump") /\ UNCHANGED vars /\ PostOKStutter
    \* the policy worker applying a batch of recorded lookups (Ring.tla): no state of this specification
    \/ Is("LRecv") /\ UNCHANGED vars /\ PostOKStutter
    \* builder validation (Config.tla): the recorded result of finalize() must be the specified one
    \/ Is("Finalize") /\ UNCHANGED vars /\ Ev.res = FinalizeResult(Ev.nc, Ev.max, Ev.bufsize)
    \/ Is("Skip") /\ UNCHANGED vars /\ PostOKStutter
    \/ Is("End") /\ UNCHANGED vars /\ PostOKStutter
    \* a client that is blocked for ever: only explainable by the known finding D6
    \/ Is("Hung") /\ UNCHANGED vars /\ Ev.at = "wait" /\ C \in orphans /\ "D6" \in kf      \* (never: orphans is empty since fix D6)

TNext == TNewInstance \/ TClient \/ TProc \/ TEnv
TSpec == TInit /\ [][TNext]_tvars

Accepted ==
    IF TLCGet("stats").diameter - 1 = Len(Rec) THEN TRUE
    ELSE /\ PrintT(<<"TRACE-REJECTED at line", TLCGet("stats").diameter, Rec[TLCGet("stats").diameter].ev>>)
         /\ FALSE
=============================================================================
