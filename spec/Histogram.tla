----------------------------- MODULE Histogram -----------------------------
(***************************************************************************)
(* src/histogram.rs (public type `Histogram`, used by Metrics for the      *)
(* life-expectancy of entries): bounds b[1..n], n+1 buckets, count, sum,   *)
(* min, max; update(v) files v in the first bucket whose bound exceeds it  *)
(* (the last bucket is "from the last bound up"); percentile(p) walks the  *)
(* buckets; clear() zeroes everything.                                     *)
(* C17: the histogram's count equals the sum of its buckets.               *)
(***************************************************************************)
EXTENDS Integers, Sequences, FiniteSets

VARIABLES bounds,   \* Seq(Nat), increasing
          buckets,  \* [1 .. Len(bounds)+1 -> Nat]
          count, sum, hmin, hmax

hvars == <<bounds, buckets, count, sum, hmin, hmax>>
MAXI == 2147483647   \* stands for i64::MAX (the initial min)

RECURSIVE SumB(_, _)
SumB(b, i) == IF i > Len(b) THEN 0 ELSE b[i] + SumB(b, i + 1)

BucketOf(v) == IF \E i \in 1 .. Len(bounds) : v < bounds[i]
               THEN CHOOSE i \in 1 .. Len(bounds) : v < bounds[i] /\ \A j \in 1 .. i - 1 : ~(v < bounds[j])
               ELSE Len(bounds) + 1

HNew(bs) == /\ bounds' = bs /\ buckets' = [i \in 1 .. Len(bs) + 1 |-> 0]
            /\ count' = 0 /\ sum' = 0 /\ hmin' = MAXI /\ hmax' = 0

HUpdate(v) == /\ buckets' = [buckets EXCEPT ![BucketOf(v)] = @ + 1]
              /\ count' = count + 1 /\ sum' = sum + v
              /\ hmax' = IF v > hmax THEN v ELSE hmax
              /\ hmin' = IF v < hmin THEN v ELSE hmin
              /\ UNCHANGED bounds

\* clear() also sets min to 0 (not back to i64::MAX): modelled as the code does it
HClear == /\ buckets' = [i \in DOMAIN buckets |-> 0] /\ count' = 0 /\ sum' = 0 /\ hmax' = 0 /\ hmin' = 0
          /\ UNCHANGED bounds

\* percentile(p), p given as a fraction num/den that is exact in binary floating point
RECURSIVE Walk(_, _)
Walk(pval, i) ==
    IF i > Len(bounds) + 1 THEN bounds[Len(bounds)]
    ELSE LET left == pval - buckets[i] IN
         IF left <= 0 THEN (IF i = Len(bounds) + 1 THEN bounds[Len(bounds)] ELSE bounds[i])
         ELSE Walk(left, i + 1)
Percentile(num, den) == IF count = 0 THEN bounds[1] ELSE Walk((count * num) \div den, 1)

\* C17
CountIsSum == count = SumB(buckets, 1)
MaxSeen == (count > 0) => hmax >= 0
=============================================================================
