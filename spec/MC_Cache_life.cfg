SPECIFICATION MCSpec
CONSTANTS
  Clients = {1, 2}
  Idx = {1}
  Cfl = {0, 1}
  Val = {1, 2}
  SecUnits = 4
  Nil = Nil
  MCConf <- ConfConc
  MCKeys <- KeysOne
  CostSet = {1}
  TtlSet = {0}
  MaxCostSet = {2}
  SetMaxSet = {1}
  AdvSet = {}
  Budget = 2
  Ops = {"insert", "wait", "clear", "close", "get", "remove", "drop"}
  TickOn = FALSE
  MaxNow = 0
INVARIANTS UsedIsSum Bounded Agree Conservation NeverTwice NothingLost ResidentOwned IndexExact NoOrphan MetricsLaws MetricsCounts NoLoss CondNeverCreates ClearEmpties ChargeFormula
CHECK_DEADLOCK FALSE
