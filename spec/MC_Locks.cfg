SPECIFICATION Spec
CONSTANTS
  Threads = {1, 2, 3}
  Shards = {"sA", "sB"}
  Programs <- Catalogue
  MaxRuns = 1
INVARIANTS LockOK Discipline Balanced
