SPECIFICATION Spec
CONSTANTS
  Threads = {1, 2}
  Shards = {"sA", "sB"}
  Programs <- GuardMisuseSame
  MaxRuns = 1
INVARIANTS LockOK Balanced
