SPECIFICATION MCSpec
CONSTANTS
  Keys = {1, 2, 3, 4}
  Samples = 3
  Nil = Nil
  CostSet = {0, 1, 2, 3}
  MaxSet = {3, 5}
  EstSet = {0, 1, 2}
  MaxOps = 4
INVARIANTS UsedIsSum Bounded AdmissionBound RoomMeansNoVictims RoundOnlyWhenLacking VictimsGone VictimsNoMorePopular NotAddedNotCharged
CHECK_DEADLOCK FALSE
