---------------------------- MODULE MetricsWrap ----------------------------
(***************************************************************************)
(* The arithmetic behind C17's counters, which Cache.tla abstracts into    *)
(* integers ("the code's wrap-around arithmetic nets out to these"): a     *)
(* counter is a row of stripes of width Mod (2^64 in the code, a small     *)
(* power of two here); a delta is added to the stripe its key selects; a   *)
(* NEGATIVE delta (cost_added when a key becomes cheaper, SampledLFU::     *)
(* update) is added as its two's complement; reset() zeroes the stripes;   *)
(* get() sums the stripes.                                                 *)
(*                                                                         *)
(* GetWraps: with a WRAPPING sum get() returns the net of what was added   *)
(* since the reset, modulo Mod -- for a net in 0 .. Mod-1 the net itself,  *)
(* whichever stripes the positive and the negative deltas went to.         *)
(* PlainSumFits is what the code before fix D13 needed (it summed with a   *)
(* plain `+`, a panic under overflow checks): it does NOT hold once a      *)
(* stripe has gone below zero -- e.g. counters reset while a key stays     *)
(* charged, then that key becomes cheaper and another stripe is credited   *)
(* (MetricsWrap_plain.cfg is the witness; findings/d13_... reproduces it   *)
(* on the real code).                                                      *)
(***************************************************************************)
EXTENDS Integers, FiniteSets

CONSTANTS Mod,        \* stripe width (a power of two)
          Stripes,    \* set of stripe ids
          MaxDelta,   \* deltas are 1 .. MaxDelta
          MaxOps

VARIABLES stripe,     \* [Stripes -> 0 .. Mod-1]
          net,        \* the integer the counter stands for: sum of the deltas since the last reset
          ops

vars == <<stripe, net, ops>>

Init == stripe = [s \in Stripes |-> 0] /\ net = 0 /\ ops = 0

Add(s, d) == /\ ops < MaxOps /\ ops' = ops + 1
             /\ stripe' = [stripe EXCEPT ![s] = (@ + d) % Mod]
             /\ net' = net + d
\* the two's complement of d: !(d - 1) = Mod - d
Sub(s, d) == /\ ops < MaxOps /\ ops' = ops + 1
             /\ stripe' = [stripe EXCEPT ![s] = (@ + (Mod - d)) % Mod]
             /\ net' = net - d
Reset == /\ ops < MaxOps /\ ops' = ops + 1
         /\ stripe' = [s \in Stripes |-> 0] /\ net' = 0

Next == \/ \E s \in Stripes, d \in 1 .. MaxDelta : Add(s, d) \/ Sub(s, d)
        \/ Reset
Spec == Init /\ [][Next]_vars

RECURSIVE SumOver(_, _)
SumOver(f, S) == IF S = {} THEN 0 ELSE LET x == CHOOSE y \in S : TRUE IN f[x] + SumOver(f, S \ {x})
PlainSum == SumOver(stripe, Stripes)
WrapSum == PlainSum % Mod

TypeOK == stripe \in [Stripes -> 0 .. Mod - 1]
\* get() with a wrapping sum: the net, modulo the width
GetWraps == WrapSum = net % Mod
\* in particular the net itself while it is in range
GetExact == (net >= 0 /\ net < Mod) => WrapSum = net
\* what a plain sum needs: never reach the width (violated: the witness)
PlainSumFits == (net >= 0 /\ net < Mod) => PlainSum < Mod
=============================================================================
