--------------------------- MODULE KeyHash_Trace ---------------------------
(* Validates recorded build_key calls (harness: `vh keyhash`) against KeyHash.tla. *)
EXTENDS KeyHash, Json, IOUtils, TLC

VARIABLES l,
          seen,   \* [key id -> <<index, conflict>>] first result of every distinct key of the default builder
          tseen   \* set of <<type, index>> produced by the transparent builder, with the key that produced it

Rec == ndJsonDeserialize(IOEnv.TRACE)
Ev == Rec[l]
Is(x) == l <= Len(Rec) /\ Ev.ev = x /\ l' = l + 1
T3(s) == <<s[1], s[2], s[3]>>

TInit == l = 1 /\ seen = <<>> /\ tseen = {}

TNew == Is("new") /\ seen' = <<>> /\ tseen' = {}

\* TransparentKeyBuilder on an integer key of type ty
TTk ==
    /\ Is("tk")
    /\ IsLimbs(T3(Ev.idx)) /\ IsLimbs(T3(Ev.mag))
    /\ TransparentOK(Ev.neg, T3(Ev.mag), T3(Ev.idx), T3(Ev.cfl))
    \* distinct keys of one type never share an index
    /\ \A x \in tseen : (x[1] = Ev.ty /\ x[2] = T3(Ev.idx)) => (x[3] = <<Ev.neg /\ T3(Ev.mag) # Zero, T3(Ev.mag)>>)
    /\ tseen' = tseen \cup { <<Ev.ty, T3(Ev.idx), <<Ev.neg /\ T3(Ev.mag) # Zero, T3(Ev.mag)>>>> }
    /\ UNCHANGED seen

\* DefaultKeyBuilder / custom builder on key number id, borrowed in some form: always the same pair
TDk ==
    /\ Is("dk")
    /\ LET r == <<T3(Ev.idx), T3(Ev.cfl)>> IN
       IF Ev.id \in DOMAIN seen
       THEN seen[Ev.id] = r /\ UNCHANGED seen
       ELSE seen' = [i \in DOMAIN seen \cup {Ev.id} |-> IF i = Ev.id THEN r ELSE seen[i]]
    /\ UNCHANGED tseen

TNext == TNew \/ TTk \/ TDk
TSpec == TInit /\ [][TNext]_<<l, seen, tseen>>

Accepted ==
    IF TLCGet("stats").diameter - 1 = Len(Rec) THEN TRUE
    ELSE /\ PrintT(<<"TRACE-REJECTED at line", TLCGet("stats").diameter, Rec[TLCGet("stats").diameter]>>)
         /\ FALSE
=============================================================================
