--------------------------- MODULE Bloom_Trace ---------------------------
(***************************************************************************)
(* Validates traces recorded from the real Bloom filter (harness: `vh      *)
(* bloom`) against Bloom.tla: every contains / contains_or_add result and  *)
(* the population count of the bit array after every add must equal the    *)
(* ideal filter's; sizing must follow the sizing rule; and the measured    *)
(* false-positive count of never-added probes at full load must stay       *)
(* within 4p (+10 probes) -- counted by this specification, not by the     *)
(* harness.                                                                *)
(***************************************************************************)
EXTENDS Naturals, Sequences, FiniteSets, Bloom, Json, IOUtils, TLC

VARIABLES l, B, added, e, locs, mlog, cap, fp, probes, last

Rec == ndJsonDeserialize(IOEnv.TRACE)
tvars == <<l, B, added, e, locs, mlog, cap, fp, probes, last>>

TInit == l = 1 /\ B = {} /\ added = {} /\ e = 0 /\ locs = 0 /\ mlog = 0 /\ cap = 0
         /\ fp = 0 /\ probes = 0 /\ last = "none"

Ev == Rec[l]
\* a hash is logged as three limbs k = <<h >> 43, (h >> 22) mod 2^21, h mod 2^22>>; the two numbers the
\* filter uses are recomputed here (valid for e <= 21)
Hi(k) == k[1] \div Pow2(21 - e)
Lo(k) == k[3] % Pow2(e)
Is(x) == l <= Len(Rec) /\ Ev.ev = x /\ l' = l + 1 /\ last' = x

TNew ==
    /\ Is("new")
    /\ SizingOK(Ev.cap, Ev.mlog, Ev.e, Ev.locs)
    /\ Ev.size = Pow2(Ev.e) - 1
    /\ Ev.shift = 64 - Ev.e
    /\ Ev.words * 64 = Pow2(Ev.e)
    /\ Ev.e <= 21
    /\ e' = Ev.e /\ locs' = Ev.locs /\ mlog' = Ev.mlog /\ cap' = Ev.cap
    /\ B' = {} /\ added' = {} /\ fp' = 0 /\ probes' = 0

TAdd ==
    /\ Is("add")
    /\ B' = Add(B, Hi(Ev.k), Lo(Ev.k), locs, e)
    /\ added' = added \cup {Ev.k}
    /\ Cardinality(B') = Ev.pop
    /\ UNCHANGED <<e, locs, mlog, cap, fp, probes>>

TContains ==
    /\ Is("contains")
    /\ Ev.res = Contains(B, Hi(Ev.k), Lo(Ev.k), locs, e)
    /\ UNCHANGED <<B, added, e, locs, mlog, cap, fp, probes>>

TCoa ==
    /\ Is("coa")
    /\ LET present == Contains(B, Hi(Ev.k), Lo(Ev.k), locs, e) IN
        /\ Ev.res = ~present
        /\ B' = IF present THEN B ELSE Add(B, Hi(Ev.k), Lo(Ev.k), locs, e)
        /\ added' = IF present THEN added ELSE added \cup {Ev.k}
    /\ Cardinality(B') = Ev.pop
    /\ UNCHANGED <<e, locs, mlog, cap, fp, probes>>

TReset ==
    /\ Is("reset")
    /\ B' = {} /\ added' = {} /\ fp' = 0 /\ probes' = 0
    /\ Ev.pop = 0
    /\ UNCHANGED <<e, locs, mlog, cap>>

\* probe of a hash the harness claims was never added: the claim is checked
TProbe ==
    /\ Is("probe")
    /\ Ev.k \notin added
    /\ Ev.res = Contains(B, Hi(Ev.k), Lo(Ev.k), locs, e)
    /\ fp' = fp + (IF Ev.res THEN 1 ELSE 0)
    /\ probes' = probes + 1
    /\ UNCHANGED <<B, added, e, locs, mlog, cap>>

\* 1e6 * target rate, from mlog = 1000*log10(1/p): only the rates the harness uses
RatePPM == CASE mlog = 301 -> 500000 [] mlog = 1000 -> 100000 [] mlog = 2000 -> 10000 [] mlog = 3000 -> 1000

TRate ==
    /\ Is("rate")
    /\ probes = Ev.probes
    /\ Cardinality(added) <= cap
    \* bounded false positives: within a small constant factor (4) of p, plus 10 probes of slack
    /\ fp <= (probes * 4 * (RatePPM \div 100)) \div 10000 + 10
    /\ UNCHANGED <<B, added, e, locs, mlog, cap, fp, probes>>

TNext == TNew \/ TAdd \/ TContains \/ TCoa \/ TReset \/ TProbe \/ TRate
TSpec == TInit /\ [][TNext]_tvars

\* C14 state predicates, evaluated on every state of the validated trace
NoFalseNegative == \A h \in added : Contains(B, Hi(h), Lo(h), locs, e)
ResetEmpties == (last = "reset") => B = {}
BitBound == Cardinality(B) <= locs * Cardinality(added)

Accepted ==
    IF TLCGet("stats").diameter - 1 = Len(Rec) THEN TRUE
    ELSE /\ PrintT(<<"TRACE-REJECTED at line", TLCGet("stats").diameter, Rec[TLCGet("stats").diameter]>>)
         /\ FALSE
=============================================================================
