SPECIFICATION Spec
CONSTANTS
  Waiters = {1, 2}
  Variant = "closefirst"
INVARIANTS TypeOK NoOrphan
PROPERTIES EveryWaiterReturns
CHECK_DEADLOCK FALSE
