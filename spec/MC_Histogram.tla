---------------------------- MODULE MC_Histogram ----------------------------
EXTENDS Histogram
CONSTANTS Values, MaxOps
VARIABLE ops
MCInit == bounds = <<2, 4, 8>> /\ buckets = [i \in 1 .. 4 |-> 0] /\ count = 0 /\ sum = 0 /\ hmin = MAXI /\ hmax = 0 /\ ops = 0
MCNext == ops < MaxOps /\ ops' = ops + 1 /\ ((\E v \in Values : HUpdate(v)) \/ HClear)
MCSpec == MCInit /\ [][MCNext]_<<hvars, ops>>
\* a percentile is always one of the bounds; the median bound's bucket chain holds at least half of the samples
PercentileIsBound == \A n \in {0, 1, 2, 3, 4} : Percentile(n, 4) \in { bounds[i] : i \in 1 .. Len(bounds) }
=============================================================================
