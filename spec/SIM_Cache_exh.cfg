SPECIFICATION SimSpec
CONSTANTS
  Clients = {1, 2}
  Idx = {1, 3}
  Cfl = {0, 1, 2, 3}
  Val = {1, 2}
  SecUnits = 4
  Nil = Nil
  MCConf <- ConfSimOne
  MCKeys <- KeysSimOne
  CostSet = {1}
  TtlSet = {0}
  MaxCostSet = {2}
  SetMaxSet = {1}
  AdvSet = {}
  Budget = 1
  Ops = {"insert", "clear", "wait", "remove"}
  TickOn = FALSE
  MaxNow = 0
  Depth = 200
  ClientOps <- AllOps
INVARIANTS PrintSchedule UsedIsSum Agree Conservation NeverTwice NoOrphan
CHECK_DEADLOCK FALSE
