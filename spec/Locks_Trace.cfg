SPECIFICATION Spec
INVARIANTS TDiscipline TBalanced TClasses
POSTCONDITION Accepted
CHECK_DEADLOCK FALSE
