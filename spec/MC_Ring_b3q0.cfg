SPECIFICATION MCSpec
CONSTANTS
  Idx = {1, 2}
  BufferItems = 3
  QueueCap = 0
  Nil = Nil
  MaxOps = 9
INVARIANTS RingBounded QueueBounded KeptPlusDropped InvAccounted Reflected
CHECK_DEADLOCK FALSE
