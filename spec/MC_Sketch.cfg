SPECIFICATION MCSpec
CONSTANTS
  Depth = 2
  NumCountersSet = {1, 2, 3, 4, 5, 8}
  MaxOps = 9
INVARIANTS InvWellFormed InvIndex InvNeverUndercount InvFreshZero InvWBound
PROPERTIES PropNoSpill PropHalving PropResetAt PropClear
CHECK_DEADLOCK FALSE
