--------------------------- MODULE Sketch_Trace ---------------------------
(***************************************************************************)
(* Validates a trace recorded from the real TinyLFU / CountMinSketch /     *)
(* doorkeeper (harness: `vh sketch`) against Sketch.tla: every recorded    *)
(* call must be the spec action with the recorded result, and the raw      *)
(* counter bytes, doorkeeper population and w must equal the spec's.       *)
(***************************************************************************)
EXTENDS Sketch, Json, IOUtils, TLC

VARIABLES l,      \* next line of the trace
          htab    \* [hash id -> hash record] of the current instance

Rec == ndJsonDeserialize(IOEnv.TRACE)

tvars == <<svars, l, htab>>

TInit ==
    /\ l = 1 /\ htab = <<>>
    /\ rows = <<>> /\ seeds = <<>> /\ width = 0 /\ mask = 0 /\ door = {} /\ dE = 0 /\ dLocs = 0
    /\ w = 0 /\ samples = 0 /\ rec = <<>> /\ out = <<"none">>

Ev == Rec[l]
Is(e) == l <= Len(Rec) /\ Ev.ev = e /\ l' = l + 1

\* a hash is logged as three limbs k = <<h >> 43, (h >> 22) mod 2^21, h mod 2^22>>; the numbers the
\* sketch and the doorkeeper use are recomputed here (doorkeeper exponent <= 21)
HRec(x, de) == [id |-> x.id,
                lo |-> (x.k[2] % 256) * 4194304 + x.k[3],
                hi |-> x.k[1] \div Pow2(21 - de),
                dlo |-> x.k[3] % Pow2(de)]
HashesOf(e) == { HRec(e.hashes[i], e.de) : i \in 1 .. Len(e.hashes) }
SeqToRow(s) == [j \in 0 .. Len(s) - 1 |-> s[j + 1]]

TNew ==
    /\ Is("new")
    /\ New(Ev.n, [r \in 1 .. Depth |-> Ev.seeds[r]], Ev.de, Ev.dlocs, { h.id : h \in HashesOf(Ev) })
    /\ htab' = [i \in { h.id : h \in HashesOf(Ev) } |-> CHOOSE h \in HashesOf(Ev) : h.id = i]
    \* the implementation's dimensions must be the specified ones
    /\ width' = Ev.width
    /\ mask' = Ev.mask
    /\ Ev.samples = Ev.n
    /\ Ev.de <= 21

TInc ==
    /\ Is("inc")
    /\ Increment(htab[Ev.h])
    /\ UNCHANGED htab
    /\ w' = Ev.w

\* one element of a batch given to TinyLFU::increments (the policy worker's path): the same
\* specification step; the state is compared by the "rows" event that follows the batch
TBatchInc ==
    /\ Is("binc")
    /\ Increment(htab[Ev.h])
    /\ UNCHANGED htab

TEst ==
    /\ Is("est")
    /\ DoEstimate(htab[Ev.h])
    /\ UNCHANGED htab
    /\ Estimate(htab[Ev.h]) = Ev.v

TClear ==
    /\ Is("clear")
    /\ Clear
    /\ UNCHANGED htab

\* full comparison of the counter bytes and the doorkeeper population
TRows ==
    /\ Is("rows")
    /\ UNCHANGED <<svars, htab>>
    /\ \A r \in 1 .. Depth : rows[r] = SeqToRow(Ev.rows[r])
    /\ Cardinality(door) = Ev.doorpop
    /\ w = Ev.w

TNext == TNew \/ TInc \/ TBatchInc \/ TEst \/ TClear \/ TRows

TSpec == TInit /\ [][TNext]_tvars

HSet == { htab[i] : i \in DOMAIN htab }
TInvWellFormed == (samples > 0) => RowsWellFormed
TInvIndex == (samples > 0) => IndexInRange(HSet)
TInvNeverUndercount == (samples > 0) => NeverUndercount(HSet)
TInvFreshZero == (samples > 0) => FreshZero(HSet)
TInvWBound == WBound
TPropNoSpill == [][NoSpill(HSet)]_svars
TPropHalving == [][HalvingOnReset(HSet)]_svars
TPropResetAt == [][ResetExactlyAtSamples(HSet)]_svars
TPropClear == [][ClearZeroes]_svars

Accepted ==
    IF TLCGet("stats").diameter - 1 = Len(Rec) THEN TRUE
    ELSE /\ PrintT(<<"TRACE-REJECTED at line", TLCGet("stats").diameter, Rec[TLCGet("stats").diameter]>>)
         /\ FALSE
=============================================================================
