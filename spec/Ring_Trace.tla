----------------------------- MODULE Ring_Trace -----------------------------
(***************************************************************************)
(* Reads the SAME traces as Cache_Trace.tla (harness: `vh cache`) and      *)
(* validates the lookup-recording part of every event against Ring.tla:    *)
(* pending batch length, policy queue length, gets_kept / gets_dropped     *)
(* after every lookup and worker step; and that the estimator reflects     *)
(* the kept lookups once they have been processed (lower bound of C13).    *)
(***************************************************************************)
EXTENDS Ring, Json, IOUtils, TLC

VARIABLES l, bi, qcap, cacheClosed, nc, applied

Rec == ndJsonDeserialize(IOEnv.TRACE)
Ev == Rec[l]
Is(x) == l <= Len(Rec) /\ Ev.ev = x /\ l' = l + 1
tvars == <<rvars, l, bi, qcap, cacheClosed, nc, applied>>

\* Ring.tla with the instance's parameters (constants of Ring are overridden per instance through bi/qcap)
PushT(i) ==
    LET b == Append(ring, i) IN
    /\ pushed' = [pushed EXCEPT ![i] = @ + 1]
    /\ IF Len(b) >= bi
       THEN /\ ring' = <<>>
            /\ IF polClosed THEN UNCHANGED <<queue, kept, dropped, lostc>>
               ELSE IF (qcap > 0 /\ Len(queue) >= qcap) \/ ~workerAlive
                    THEN /\ dropped' = dropped + Len(b) /\ lostc' = AddCounts(lostc, b) /\ UNCHANGED <<queue, kept>>
                    ELSE /\ queue' = Append(queue, b) /\ kept' = kept + Len(b) /\ UNCHANGED <<dropped, lostc>>
       ELSE ring' = b /\ UNCHANGED <<queue, kept, dropped, lostc>>
    /\ UNCHANGED <<rec, polClosed, workerAlive>>

\* (with metrics disabled the counters read 0: only the batch and the queue are compared)
PostOK == /\ Len(ring') = Ev.post.ring /\ Len(queue') = Ev.post.polq
          /\ ~Ev.nomet => (kept' = Ev.post.met.keepGets /\ dropped' = Ev.post.met.dropGets)

Min2(a, b) == IF a < b THEN a ELSE b
EstOf(p, i) == p.est[CHOOSE j \in 1 .. Len(p.est) : p.est[j][1] = i][2]
\* the estimator has seen every applied lookup (no aging reset can have happened while applied < nc)
EstReflects == (applied' < nc) => \A i \in Idx : EstOf(Ev.post, i) >= Min2(rec'[i], 16)

TInit == RInit /\ l = 1 /\ bi = 0 /\ qcap = 0 /\ cacheClosed = FALSE /\ nc = 0 /\ applied = 0

TNew == /\ Is("Init")
        /\ ring' = <<>> /\ queue' = <<>> /\ kept' = 0 /\ dropped' = 0
        /\ rec' = [i \in Idx |-> 0] /\ pushed' = [i \in Idx |-> 0] /\ lostc' = [i \in Idx |-> 0]
        /\ polClosed' = FALSE /\ workerAlive' = TRUE
        /\ bi' = Ev.bi /\ qcap' = (IF Ev.flavor = "sync" THEN 3 ELSE 0) /\ cacheClosed' = FALSE /\ nc' = Ev.nc /\ applied' = 0

TLookup == /\ (Is("Get") \/ Is("GetMut"))
           /\ IF cacheClosed THEN UNCHANGED rvars ELSE PushT(Ev.k[1])
           /\ PostOK /\ UNCHANGED <<bi, qcap, cacheClosed, nc, applied>>

TRecv == /\ Is("LRecv") /\ Recv /\ PostOK
         /\ applied' = applied + Len(Head(queue))
         /\ EstReflects
         /\ UNCHANGED <<bi, qcap, cacheClosed, nc>>

\* direct popularity change by the harness: n accesses of index i
TBump == /\ Is("Bump") /\ rec' = [rec EXCEPT ![Ev.i] = @ + Ev.n] /\ applied' = applied + Ev.n
         /\ pushed' = [pushed EXCEPT ![Ev.i] = @ + Ev.n]
         /\ UNCHANGED <<ring, queue, kept, dropped, lostc, polClosed, workerAlive, bi, qcap, cacheClosed, nc>>
         /\ PostOK /\ EstReflects

TClrPolicy == /\ Is("ClrPolicy") /\ rec' = [i \in Idx |-> 0] /\ applied' = 0
              /\ UNCHANGED <<ring, queue, kept, dropped, pushed, lostc, polClosed, workerAlive, bi, qcap, cacheClosed, nc>>
TClrMetrics == /\ Is("ClrMetrics") /\ kept' = 0 /\ dropped' = 0
               /\ UNCHANGED <<ring, queue, rec, pushed, lostc, polClosed, workerAlive, bi, qcap, cacheClosed, nc, applied>>
               /\ PostOK
TPolFlag == Is("ClsPolFlag") /\ RClosePolicy /\ UNCHANGED <<bi, qcap, cacheClosed, nc, applied>>
TLStop == Is("LStop") /\ RWorkerStop /\ UNCHANGED <<bi, qcap, cacheClosed, nc, applied>>
TClsFlag == Is("ClsFlag") /\ cacheClosed' = TRUE /\ UNCHANGED <<rvars, bi, qcap, nc, applied>>

Other == { "InsBegin", "InsSend", "GetTtl", "RemStore", "RemSend", "RemSendA", "RemBlock", "RemRet", "ClrSend", "ClrStore",
           "ClsStopSend", "ClsStopFail", "ClsStopLate", "ClsPol", "ClsPolSend", "ClsPolLate", "ClsPolFail",
           "WaitSend", "WaitBlock", "WaitRet", "SetMax", "Observe", "PNewAdd", "PNewStore", "PVictim", "PUpd", "PDel",
           "PDelPolicy", "PWait", "PClrTake", "PCleanItem", "PCleanEnd", "PTick", "PCleanupKey", "PCleanupDone", "PStop",
           "Advance", "Skip", "End", "Hung", "Finalize" }
\* every other event leaves the recording state alone -- and the implementation must agree
TOther == /\ l <= Len(Rec) /\ Ev.ev \in Other /\ l' = l + 1
          /\ UNCHANGED <<rvars, bi, qcap, cacheClosed, nc, applied>>
          /\ (Ev.ev \notin {"Finalize", "Panic"}) => (Len(ring) = Ev.post.ring /\ (~Ev.nomet => (kept = Ev.post.met.keepGets /\ dropped = Ev.post.met.dropGets)))

TNext == TNew \/ TLookup \/ TRecv \/ TBump \/ TClrPolicy \/ TClrMetrics \/ TPolFlag \/ TLStop \/ TClsFlag \/ TOther
TSpec == TInit /\ [][TNext]_tvars

TRingBounded == Len(ring) < (IF bi = 0 THEN 1 ELSE bi)
TQueueBounded == qcap > 0 => Len(queue) <= qcap
TAccounted == Accounted(0)
TReflected == Reflected

Accepted ==
    IF TLCGet("stats").diameter - 1 = Len(Rec) THEN TRUE
    ELSE /\ PrintT(<<"TRACE-REJECTED at line", TLCGet("stats").diameter, Rec[TLCGet("stats").diameter].ev>>)
         /\ FALSE
=============================================================================
