----------------------------- MODULE SIM_Cache -----------------------------
(***************************************************************************)
(* Specification -> implementation: TLC in simulation mode walks Cache.tla *)
(* (through MC_Cache's bounded clients) and prints each behaviour as a     *)
(* SCHEDULE -- who moves, which public call with which arguments, which    *)
(* select! arm the processor takes, how far the clock advances.  The       *)
(* harness (`vh cache --sched FILE`) executes every schedule on the real   *)
(* cache under the baton scheduler; the recorded trace is then validated   *)
(* by Cache_Trace.tla like any other.  Where the real policy decides       *)
(* differently from the simulated behaviour (popularity is abstract), the  *)
(* remaining steps are still a legal schedule: steps that are not          *)
(* executable are skipped.                                                 *)
(***************************************************************************)
EXTENDS MC_Cache, Json

CONSTANTS Depth,
          ClientOps    \* [client -> public calls it may issue] (narrows Ops per client)
VARIABLES act, hist

simvars == <<mcvars, act, hist>>
KeysSim == { <<1, 1>>, <<3, 3>>, <<1, 2>> }
AllOps == [c \in Clients |-> {"insert", "insert_if_present", "remove", "get", "get_mut", "get_ttl", "clear", "close", "wait", "set_max"}]
\* client 1 writes / waits / removes, client 2 clears (and writes): the clear-vs-item races without clear-vs-clear blow-up
WriterClearer == [c \in Clients |-> IF c = 1 THEN {"insert", "wait", "remove"} ELSE {"clear", "insert"}]
WaiterCloser == [c \in Clients |-> IF c = 1 THEN {"insert", "wait"} ELSE {"close"}]
KeysSimOne == { <<1, 1>> }
ConfSimOne == { [bufcap |-> 2, itemsize |-> 0, flavor |-> "sync", coster |-> "const2", validator |-> "always"] }
ConfSim == { [bufcap |-> b, itemsize |-> 0, flavor |-> "sync", coster |-> "const2", validator |-> "always"] : b \in {1, 2} }

SimInit == MCInit /\ act = <<"init">> /\ hist = <<[a |-> "conf", bufcap |-> conf.bufcap, max |-> maxCost]>>

L(r) == act' = r /\ hist' = Append(hist, r)

SimClientStart(c) ==
    /\ Start(c)
    /\ \/ /\ "insert" \in (Ops \cap ClientOps[c]) /\ nextVal \in Val /\ nextVal' = nextVal + 1
          /\ \E k \in MCKeys, cost \in CostSet, d \in TtlSet :
                InsBegin(c, k, nextVal, cost, d, FALSE) /\ L([a |-> "insert", c |-> c, i |-> k[1], f |-> k[2], cost |-> cost, d |-> d])
       \/ /\ "insert_if_present" \in (Ops \cap ClientOps[c]) /\ nextVal \in Val /\ nextVal' = nextVal + 1
          /\ \E k \in MCKeys, cost \in CostSet :
                InsBegin(c, k, nextVal, cost, 0, TRUE) /\ L([a |-> "insert_if_present", c |-> c, i |-> k[1], f |-> k[2], cost |-> cost])
       \/ /\ UNCHANGED nextVal
          /\ \/ "remove" \in (Ops \cap ClientOps[c]) /\ \E k \in MCKeys : RemStore(c, k) /\ L([a |-> "remove", c |-> c, i |-> k[1], f |-> k[2]])
             \/ "get" \in (Ops \cap ClientOps[c]) /\ \E k \in MCKeys : Get(c, k) /\ L([a |-> "get", c |-> c, i |-> k[1], f |-> k[2]])
             \/ "get_mut" \in (Ops \cap ClientOps[c]) /\ \E k \in MCKeys : GetMut(c, k) /\ L([a |-> "get_mut", c |-> c, i |-> k[1], f |-> k[2]])
             \/ "get_ttl" \in (Ops \cap ClientOps[c]) /\ \E k \in MCKeys : GetTtl(c, k) /\ L([a |-> "get_ttl", c |-> c, i |-> k[1], f |-> k[2]])
             \/ "clear" \in (Ops \cap ClientOps[c]) /\ ClrSend(c, "clear") /\ L([a |-> "clear", c |-> c])
             \/ "close" \in (Ops \cap ClientOps[c]) /\ ClrSend(c, "close") /\ L([a |-> "close", c |-> c])
             \/ "wait" \in (Ops \cap ClientOps[c]) /\ WaitSend(c) /\ L([a |-> "wait", c |-> c])
             \/ "set_max" \in (Ops \cap ClientOps[c]) /\ \E m \in SetMaxSet : SetMax(c, m) /\ L([a |-> "set_max", c |-> c, m |-> m])

SimClientStep(c) == ClientStep(c) /\ L([a |-> "cstep", c |-> c])

SimProc ==
    /\ UNCHANGED <<nextVal, ops>>
    /\ \/ /\ \/ \E path \in {"oversize", "present", "room", "evicted", "rejected"}, vs \in VictimSeqs, ad \in BOOLEAN : PNewAdd(path, vs, ad)
             \/ PUpd \/ PDel \/ PWait
          /\ L([a |-> "proc", b |-> "insert"])
       \/ (PNewStore \/ PVictim \/ PDelPolicy \/ PCleanItem \/ PCleanEnd \/ (\E i \in Idx : PCleanupKey(i)) \/ PCleanupDone)
             /\ L([a |-> "proc", b |-> "cont"])
       \/ PClrTake /\ L([a |-> "proc", b |-> "clear"])
       \/ TickOn /\ PTick /\ L([a |-> "proc", b |-> "tick"])
       \/ (\E c \in Clients : PStop(c)) /\ L([a |-> "proc", b |-> "stop"])
       \/ (\E c \in Clients : LStop(c)) /\ L([a |-> "pol", b |-> "stop"])

SimClock == /\ UNCHANGED <<nextVal, ops>>
            /\ \E dt \in AdvSet : now + dt <= MaxNow /\ Advance(dt) /\ L([a |-> "adv", dt |-> dt])

SimNext == (\E c \in Clients : SimClientStart(c) \/ SimClientStep(c)) \/ SimProc \/ SimClock
SimSpec == SimInit /\ [][SimNext]_simvars

\* print every behaviour once, when it ends (depth reached or nothing left to do)
PrintSchedule == (Len(hist) = Depth + 1 \/ ~ENABLED SimNext) => PrintT(<<"SCHED", ToJson(hist)>>)
=============================================================================
