------------------------------ MODULE MC_Cache ------------------------------
(* Model-checking harness for Cache.tla: bounded clients issuing public calls, the processor
   taking every step it can, the clock advancing.  Budgets are part of the state (no state
   constraint), so liveness / deadlock results are not masked. *)
EXTENDS Cache, SequencesExt

CONSTANTS MCKeys,      \* keys used by the clients: subset of Idx \X Cfl
          CostSet,     \* explicit costs given to insert
          TtlSet,      \* ttls (0 = none), in clock units
          MaxCostSet,  \* initial max_cost values
          SetMaxSet,   \* values given to update_max_cost
          AdvSet,      \* clock advances
          Budget,      \* public calls per client
          Ops,         \* enabled public calls
          TickOn,      \* whether cleanup ticks happen
          MaxNow,      \* the clock stops here
          MCConf       \* set of instance configurations [bufcap, itemsize, flavor, coster, validator]

VARIABLES nextVal,     \* next fresh value id
          ops          \* [Clients -> calls started]

mcvars == <<vars, nextVal, ops>>

\* key sets: one colliding pair plus a conflict-0 key / two plain keys / a single key
ConfSeq == { [bufcap |-> 2, itemsize |-> 1, flavor |-> "sync", coster |-> "const2", validator |-> "veto_odd_next"] }
ConfConc == { [bufcap |-> b, itemsize |-> 0, flavor |-> "sync", coster |-> "const2", validator |-> "always"] : b \in {1, 2} }
ConfAsync == { [bufcap |-> b, itemsize |-> 0, flavor |-> "async", coster |-> "const2", validator |-> "always"] : b \in {1, 2} }
ConfTtl == { [bufcap |-> 2, itemsize |-> 0, flavor |-> "sync", coster |-> "const2", validator |-> "always"] }
KeysColl == { <<1, 1>>, <<1, 2>>, <<2, 0>> }
KeysTwo == { <<1, 1>>, <<2, 2>> }
KeysOne == { <<1, 1>> }
KeysThree == { <<1, 1>>, <<2, 2>>, <<3, 3>> }


RECURSIVE SeqsOver(_, _)
SeqsOver(S, n) == IF n = 0 \/ S = {} THEN {<<>>}
                  ELSE {<<>>} \cup UNION { { <<x>> \o s : s \in SeqsOver(S \ {x}, n - 1) } : x \in S }
VictimSeqs == { [j \in 1 .. Len(s) |-> <<s[j], costs[s[j]]>>] : s \in SeqsOver(Charged, 3) }

MCInit ==
    /\ Init
    /\ conf \in MCConf
    /\ maxCost \in MaxCostSet
    /\ now = 0
    /\ nextVal = 1
    /\ ops = [c \in Clients |-> 0]

Start(c) == ops[c] < Budget /\ pol.handles /\ ops' = [ops EXCEPT ![c] = @ + 1]

ClientStart(c) ==
    /\ Start(c)
    /\ \/ /\ "insert" \in Ops /\ nextVal \in Val /\ nextVal' = nextVal + 1
          /\ \E k \in MCKeys, cost \in CostSet, d \in TtlSet : InsBegin(c, k, nextVal, cost, d, FALSE)
       \/ /\ "insert_if_present" \in Ops /\ nextVal \in Val /\ nextVal' = nextVal + 1
          /\ \E k \in MCKeys, cost \in CostSet : InsBegin(c, k, nextVal, cost, 0, TRUE)
       \/ /\ UNCHANGED nextVal
          /\ \/ "remove" \in Ops /\ \E k \in MCKeys : RemStore(c, k)
             \/ "get" \in Ops /\ \E k \in MCKeys : Get(c, k)
             \/ "get_mut" \in Ops /\ \E k \in MCKeys : GetMut(c, k)
             \/ "get_ttl" \in Ops /\ \E k \in MCKeys : GetTtl(c, k)
             \/ "clear" \in Ops /\ ClrSend(c, "clear")
             \/ "close" \in Ops /\ ClrSend(c, "close")
             \/ "wait" \in Ops /\ WaitSend(c)
             \/ "set_max" \in Ops /\ \E m \in SetMaxSet : SetMax(c, m)

\* one named operator per action of Cache.tla: TLC then reports coverage (-coverage) per action
Keep == UNCHANGED <<nextVal, ops>>
MCInsSend(c) == Keep /\ InsSend(c)
MCRemSend(c) == Keep /\ RemSend(c)
MCRemSendA(c) == Keep /\ RemSendA(c)
MCRemBlock(c) == Keep /\ RemBlock(c)
MCRemRet(c) == Keep /\ RemRet(c)
MCClrPolicy(c) == Keep /\ ClrPolicy(c)
MCClrStore(c) == Keep /\ ClrStore(c)
MCClrMetrics(c) == Keep /\ ClrMetrics(c)
MCClsStopSend(c) == Keep /\ ClsStopSend(c)
MCClsStopFail(c) == Keep /\ ClsStopFail(c)
MCClsPol(c) == Keep /\ ClsPol(c)
MCClsPolSend(c) == Keep /\ ClsPolSend(c)
MCClsPolLate(c) == Keep /\ ClsPolLate(c)
MCClsStopLate(c) == Keep /\ ClsStopLate(c)
MCClsPolFail(c) == Keep /\ ClsPolFail(c)
MCClsPolFlag(c) == Keep /\ ClsPolFlag(c)
MCClsFlag(c) == Keep /\ ClsFlag(c)
MCWaitBlock(c) == Keep /\ WaitBlock(c)
MCWaitRet(c) == Keep /\ WaitRet(c)
ClientStep(c) ==
    \/ MCInsSend(c)
    \/ MCRemSend(c)
    \/ MCRemSendA(c)
    \/ MCRemBlock(c)
    \/ MCRemRet(c)
    \/ MCClrPolicy(c)
    \/ MCClrStore(c)
    \/ MCClrMetrics(c)
    \/ MCClsStopSend(c)
    \/ MCClsStopFail(c)
    \/ MCClsPol(c)
    \/ MCClsPolSend(c)
    \/ MCClsPolLate(c)
    \/ MCClsStopLate(c)
    \/ MCClsPolFail(c)
    \/ MCClsPolFlag(c)
    \/ MCClsFlag(c)
    \/ MCWaitBlock(c)
    \/ MCWaitRet(c)

MCPNewAdd == Keep /\ \E path \in {"oversize", "present", "room", "evicted", "rejected"}, vs \in VictimSeqs, a \in BOOLEAN : PNewAdd(path, vs, a)
MCPNewStore == Keep /\ PNewStore
MCPVictim == Keep /\ PVictim
MCPUpd == Keep /\ PUpd
MCPDel == Keep /\ PDel
MCPDelPolicy == Keep /\ PDelPolicy
MCPWait == Keep /\ PWait
MCPClrTake == Keep /\ PClrTake
MCPCleanItem == Keep /\ PCleanItem
MCPCleanEnd == Keep /\ PCleanEnd
MCPCleanupDone == Keep /\ PCleanupDone
MCDropAll == Keep /\ "drop" \in Ops /\ DropAll
MCPStopDisc == Keep /\ PStopDisc
MCLStopDisc == Keep /\ LStopDisc
MCPTick == Keep /\ TickOn /\ PTick
MCPCleanupKey == Keep /\ \E i \in Idx : PCleanupKey(i)
MCPStop == Keep /\ \E c \in Clients : PStop(c)
MCLStop == Keep /\ \E c \in Clients : LStop(c)
ProcStep ==
    \/ MCPNewAdd
    \/ MCPNewStore
    \/ MCPVictim
    \/ MCPUpd
    \/ MCPDel
    \/ MCPDelPolicy
    \/ MCPWait
    \/ MCPClrTake
    \/ MCPCleanItem
    \/ MCPCleanEnd
    \/ MCPCleanupDone
    \/ MCPTick \/ MCPCleanupKey \/ MCPStop \/ MCLStop \/ MCPStopDisc \/ MCLStopDisc

Clock == /\ UNCHANGED <<nextVal, ops>>
         /\ \E dt \in AdvSet : now + dt <= MaxNow /\ Advance(dt)

MCNext ==
    \/ \E c \in Clients : ClientStart(c)
    \/ \E c \in Clients : MCInsSend(c)
    \/ \E c \in Clients : MCRemSend(c)
    \/ \E c \in Clients : MCRemSendA(c)
    \/ \E c \in Clients : MCRemBlock(c)
    \/ \E c \in Clients : MCRemRet(c)
    \/ \E c \in Clients : MCClrPolicy(c)
    \/ \E c \in Clients : MCClrStore(c)
    \/ \E c \in Clients : MCClrMetrics(c)
    \/ \E c \in Clients : MCClsStopSend(c)
    \/ \E c \in Clients : MCClsStopFail(c)
    \/ \E c \in Clients : MCClsPol(c)
    \/ \E c \in Clients : MCClsPolSend(c)
    \/ \E c \in Clients : MCClsPolLate(c)
    \/ \E c \in Clients : MCClsStopLate(c)
    \/ \E c \in Clients : MCClsPolFail(c)
    \/ \E c \in Clients : MCClsPolFlag(c)
    \/ \E c \in Clients : MCClsFlag(c)
    \/ \E c \in Clients : MCWaitBlock(c)
    \/ \E c \in Clients : MCWaitRet(c)
    \/ MCPNewAdd
    \/ MCPNewStore
    \/ MCPVictim
    \/ MCPUpd
    \/ MCPDel
    \/ MCPDelPolicy
    \/ MCPWait
    \/ MCPClrTake
    \/ MCPCleanItem
    \/ MCPCleanEnd
    \/ MCPCleanupDone
    \/ MCPTick \/ MCPCleanupKey \/ MCPStop \/ MCLStop \/ MCPStopDisc \/ MCLStopDisc
    \/ MCDropAll
    \/ Clock

MCSpec == MCInit /\ [][MCNext]_mcvars

\* fairness for the liveness configs: the processor, the policy worker and client continuations keep going
MCFairSpec == MCSpec /\ WF_mcvars(ProcStep) /\ \A c \in Clients : WF_mcvars(ClientStep(c))

\* every behaviour ends (budgets are finite): terminal states are legitimate, others are deadlocks
AllDone == \A c \in Clients : cli[c].pc = "idle"
\* C10 / C12 liveness: every started call returns
\* C10 / C12 liveness: every started call returns (before fix D6 a waiter whose marker the stopping processor destroyed
\* stayed blocked for ever and this property carried an exemption for it)
EveryCallReturns == \A c \in Clients : (cli[c].pc # "idle") ~> (cli[c].pc = "idle")
EveryCallReturnsStrict == EveryCallReturns
\* C12: after a close() has returned Ok both workers are gone (sync) / have their stop signal (async)
WorkersStop == (closed) ~> (proc.pc = "exited" /\ (~pol.alive \/ pol.q > 0))
\* C12: after the last handle was dropped (without close()) both workers are gone
WorkersStopAfterDrop == (~pol.handles) ~> (proc.pc = "exited" /\ ~pol.alive)
\* a blocked client with nobody able to release it
Stuck == \E c \in Clients : cli[c].pc \in {"waiting", "cls_stop_wait", "cls_pol_wait", "rem_blocked"} /\ ~ENABLED MCNext
NoStuck == ~Stuck
=============================================================================
