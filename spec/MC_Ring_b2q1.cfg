SPECIFICATION MCSpec
CONSTANTS
  Idx = {1, 2}
  BufferItems = 2
  QueueCap = 1
  Nil = Nil
  MaxOps = 9
INVARIANTS RingBounded QueueBounded KeptPlusDropped InvAccounted Reflected
CHECK_DEADLOCK FALSE
