----------------------------- MODULE Free_Trace -----------------------------
(***************************************************************************)
(* FREE-RUNNING runs: the real cache with its real background loops (the   *)
(* sync `select!` loop with the crossbeam ticker, the async tasks with the *)
(* async-io timer on a thread-per-task, pooled or single-threaded          *)
(* executor), a single client that lets the cache quiesce (`wait()`)       *)
(* between operations, a virtual clock for TTL arithmetic.                 *)
(*                                                                         *)
(* What is validated is not the interleaving (that is Cache_Trace's job,   *)
(* with parked processors) but that the loops THEMSELVES uphold the        *)
(* state predicates of Cache.tla at every quiescent snapshot: charges sum  *)
(* up, store and policy agree, the expiry index is exact, every bucket     *)
(* that was due when a tick had its chance has been swept (C05's bounded   *)
(* delay, measured in ticks), values are conserved, metrics obey their     *)
(* laws, and the workers terminate after close() / after the last handle   *)
(* is dropped.  The predicates are the ones of Cache.tla, re-stated over   *)
(* the recorded snapshot.                                                  *)
(***************************************************************************)
EXTENDS Integers, Sequences, FiniteSets, Json, IOUtils, TLC

CONSTANT SecUnits

VARIABLES l, snap, kind

Rec == ndJsonDeserialize(IOEnv.TRACE)
Ev == Rec[l]

Init == l = 1 /\ snap = [none |-> TRUE] /\ kind = "none"
Next == /\ l <= Len(Rec)
        /\ Ev.ev \in {"FInit", "Snap", "Closed", "Dropped", "Op", "Est", "Chain", "Hammer", "Locks", "Quiesce", "Foreign", "ClearLoad", "Index"}
        /\ l' = l + 1 /\ snap' = Ev /\ kind' = Ev.ev
Spec == Init /\ [][Next]_<<l, snap, kind>>

Range(s) == { s[i] : i \in 1 .. Len(s) }
StorageBucket(at, d) == ((at + d) \div SecUnits) + 1
CleanupBucket(t) == t \div SecUnits
RECURSIVE SumSeq(_, _)
SumSeq(s, i) == IF i > Len(s) THEN 0 ELSE s[i][2] + SumSeq(s, i + 1)
IsSnap == kind = "Snap"

\* C01
FUsedIsSum == IsSnap => snap.used = SumSeq(snap.costs, 1)
FBounded == IsSnap => (snap.sequentialBelow => snap.used <= snap.max)
\* C06 (every snapshot is taken after wait() returned Ok)
FAgree == IsSnap => { e.i : e \in Range(snap.store) } = { c[1] : c \in Range(snap.costs) }
FLen == IsSnap => snap.len = Len(snap.store)
\* C05: the index is exact ...
FIndexExact == IsSnap =>
    { <<x[1], x[2]>> : x \in Range(snap.em) } = { <<StorageBucket(e.at, e.d), e.i>> : e \in { y \in Range(snap.store) : y.d > 0 } }
\* ... and every bucket that was due when the ticker last had a full period (in real time) to fire has been swept
FReclaimed == (IsSnap /\ snap.ticked) =>
    \A e \in Range(snap.store) : e.d > 0 => StorageBucket(e.at, e.d) > CleanupBucket(snap.due_now)
\* C03: nothing without a TTL ever left through the sweep (expired evictions only of TTL values)
\* C08: every accepted value is resident, or left through exactly one callback, or was dropped by clear()
Count(seq, v) == Cardinality({ j \in 1 .. Len(seq) : seq[j].val = v })
FConservation == IsSnap =>
    \A v \in Range(snap.accepted) :
        Cardinality({ e \in Range(snap.store) : e.v = v }) + Count(snap.cbs, v)
            + (IF v \in Range(snap.cleared) THEN 1 ELSE 0) = 1
FNeverTwice == IsSnap => \A j \in 1 .. Len(snap.cbs) : Count(snap.cbs, snap.cbs[j].val) = 1
\* C17
FMetrics == IsSnap =>
    /\ snap.met.keyAdd - snap.met.keyEvict = Len(snap.costs)
    /\ snap.met.costAdd - snap.met.costEvict = snap.used
    /\ snap.met.hit + snap.met.miss = snap.lookups
\* C12: workers are gone after close() / after the last handle was dropped; nothing got stuck
FWorkersGone == (kind \in {"Closed", "Dropped"}) => snap.workers_left = 0
FOpsComplete == (kind = "Op") => snap.completed

\* C15: once the policy worker has drained its queue, the estimate of every key reflects its kept lookups
\* (no aging reset can have happened: fewer recorded accesses than num_counters)
EstOf(i) == LET S == { j \in 1 .. Len(snap.est) : snap.est[j][1] = i } IN IF S = {} THEN 0 ELSE snap.est[CHOOSE j \in S : TRUE][2]
FEstimates == (kind = "Est" /\ snap.polq = 0 /\ snap.total < snap.nc) =>
    \A j \in 1 .. Len(snap.kept) : EstOf(snap.kept[j][1]) >= (IF snap.kept[j][2] < 16 THEN snap.kept[j][2] ELSE 16)

\* C09, PARALLEL writers of one resident key (free-running threads, no scheduler): InsBegin of Cache.tla takes the
\* validator's verdict on the CURRENT value and replaces it in one step.  The validator logs its calls in the order
\* it is entered; replayed as InsBegin steps on one key they must form a chain: every call saw the value left by
\* the latest approved call before it, its verdict is the predicate's, and the key ends with the last approved value.
ShouldUpdate(p, n) == (p + 2 * n) % 5 # 0          \* the harness' asymmetric predicate (Asym3 of Cache.tla's Veto)
RECURSIVE CurAfter(_, _, _)
CurAfter(init, calls, j) == IF j = 0 THEN init
                            ELSE IF calls[j][3] THEN calls[j][2] ELSE CurAfter(init, calls, j - 1)
FChain == (kind = "Chain") =>
    /\ \A j \in 1 .. Len(snap.calls) :
          /\ snap.calls[j][1] = CurAfter(snap.init, snap.calls, j - 1)
          /\ snap.calls[j][3] = ShouldUpdate(snap.calls[j][1], snap.calls[j][2])
    /\ snap.final = CurAfter(snap.init, snap.calls, Len(snap.calls))
    /\ Len(snap.calls) = snap.writes              \* every write of a resident key consults the validator exactly once
    \* the writes switch the key between TTL and no TTL: replacement and re-filing are one critical section, so the
    \* expiration index matches the resident entries afterwards (IndexExact of Cache.tla)
    /\ { <<x[1], x[2]>> : x \in Range(snap.em) } = { <<StorageBucket(e.at, e.d), e.i>> : e \in { y \in Range(snap.store) : y.d > 0 } }
\* C17, PARALLEL lookups: Get of Cache.tla adds exactly one to hit or to miss, atomically, whatever other clients do
\* C15, the same lookups: each is recorded in the lookup ring and leaves it in exactly one batch, which is counted as kept
\* or as dropped (Ring.tla's accounting, under parallel pushes into one stripe)
FHammer == (kind = "Hammer") =>
    /\ snap.hit + snap.miss = snap.lookups
    /\ snap.hit = snap.found
    /\ snap.kept + snap.dropped + snap.ring_after = snap.lookups + snap.ring_before

\* C06 under real parallelism: after a burst of removes and inserts of the same keys from different threads, at
\* quiescence, store and policy agree (remove's store half and its Delete marker are ordered as Cache.tla's RemStore /
\* RemSend / PDel say, whatever inserts interleave)
FQuiesce == (kind = "Quiesce") =>
    /\ { e.i : e \in Range(snap.store) } = { c[1] : c \in Range(snap.costs) }
    /\ snap.used = SumSeq(snap.costs, 1)
    /\ snap.len = Len(snap.store)
\* C02 / C18 under real parallelism: get_mut of a key never hands out the entry of the key it shares its index with
FForeign == (kind = "Foreign") => snap.foreign = 0

\* C11 / C17 under real parallelism: clear() while other threads look up (nothing is buffered, so D7 does not apply):
\* afterwards nothing is resident or charged, and the counters hold the lookups made since the reset -- not one from before
FClearLoad == (kind = "ClearLoad") =>
    /\ snap.store = <<>> /\ snap.costs = <<>> /\ snap.used = 0 /\ snap.len = 0
    /\ snap.lower <= snap.hitmiss /\ snap.hitmiss <= snap.upper

\* C05 / C08 under real parallelism: two threads switch one key between TTL and no TTL at the same moment; whichever write
\* lands last, the expiration index holds exactly the resident entry's bucket (IndexExact of Cache.tla, for that key)
FIndex == (kind = "Index") =>
    { <<x[1], x[2]>> : x \in Range(snap.em) } = { <<StorageBucket(e.at, e.d), e.i>> : e \in { y \in Range(snap.store) : y.d > 0 } }

Accepted ==
    IF TLCGet("stats").diameter - 1 = Len(Rec) THEN TRUE
    ELSE /\ PrintT(<<"TRACE-REJECTED at line", TLCGet("stats").diameter, Rec[TLCGet("stats").diameter].ev>>)
         /\ FALSE
=============================================================================
