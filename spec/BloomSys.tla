----------------------------- MODULE BloomSys -----------------------------
(***************************************************************************)
(* The Bloom filter as a state machine (src/bbloom.rs: add, contains,      *)
(* contains_or_add, reset, clear) over the operators of Bloom.tla.         *)
(* Checked exhaustively for toy sizes; Bloom_Trace.tla binds it to the     *)
(* real filter at real sizes.                                              *)
(***************************************************************************)
EXTENDS Naturals, FiniteSets, Bloom

CONSTANTS E,        \* size exponent: 2^E bits
          LOCS,     \* probes per hash
          Hashes    \* set of <<hi, lo>> pairs

VARIABLES B,        \* set bit positions
          added,    \* ghost: hashes added since the last reset
          last      \* last operation and its result (observation only)

vars == <<B, added, last>>

Init == B = {} /\ added = {} /\ last = <<"init">>

DoAdd(h) ==
    /\ B' = Add(B, h[1], h[2], LOCS, E)
    /\ added' = added \cup {h}
    /\ last' = <<"add", h>>

DoContains(h) ==
    /\ UNCHANGED <<B, added>>
    /\ last' = <<"contains", h, Contains(B, h[1], h[2], LOCS, E)>>

\* returns TRUE iff the hash was added by this call
DoContainsOrAdd(h) ==
    LET present == Contains(B, h[1], h[2], LOCS, E) IN
    /\ B' = IF present THEN B ELSE Add(B, h[1], h[2], LOCS, E)
    /\ added' = IF present THEN added ELSE added \cup {h}
    /\ last' = <<"contains_or_add", h, ~present>>

DoReset ==
    /\ B' = {}
    /\ added' = {}
    /\ last' = <<"reset">>

Next == \/ \E h \in Hashes : DoAdd(h) \/ DoContains(h) \/ DoContainsOrAdd(h)
        \/ DoReset

Spec == Init /\ [][Next]_vars

---------------------------------------------------------------------------
TypeOK == B \subseteq 0 .. Pow2(E) - 1

\* C14: a hash added since the last reset is always reported present
NoFalseNegative == \A h \in added : Contains(B, h[1], h[2], LOCS, E)

\* C14: reset/clear empties the filter completely
ResetEmpties == (last[1] = "reset") => (B = {} /\ \A h \in Hashes : LOCS >= 1 => ~Contains(B, h[1], h[2], LOCS, E))

\* every set bit is accounted for by an added hash (what bounds false positives)
BitsAccounted == B = UNION { Positions(h[1], h[2], LOCS, E) : h \in added }

BitBound == Cardinality(B) <= LOCS * Cardinality(added)

\* contains_or_add reports "added" exactly when the hash was not present
CoAConsistent ==
    (last[1] = "contains_or_add") => Contains(B, last[2][1], last[2][2], LOCS, E)

\* a never-added hash is reported present only if all its probes collide with added ones
FalsePositiveOnlyByCollision ==
    \A h \in Hashes \ added :
        Contains(B, h[1], h[2], LOCS, E) =>
            Positions(h[1], h[2], LOCS, E) \subseteq UNION { Positions(g[1], g[2], LOCS, E) : g \in added }
=============================================================================
