-------------------------- MODULE Histogram_Trace --------------------------
(* Validates recorded calls of the real public `Histogram` (harness: `vh histogram`): after every call the
   observable state (Display output: min, max, count, non-empty buckets; percentile(p); mean()) must equal Histogram.tla's. *)
EXTENDS Histogram, Json, IOUtils, TLC
VARIABLE l
Rec == ndJsonDeserialize(IOEnv.TRACE)
Ev == Rec[l]
Is(x) == l <= Len(Rec) /\ Ev.ev = x /\ l' = l + 1

WalkP(w) == LET RECURSIVE W(_, _)
                W(pv, i) == IF i > Len(bounds') + 1 THEN bounds'[Len(bounds')]
                            ELSE IF pv - buckets'[i] <= 0 THEN (IF i = Len(bounds') + 1 THEN bounds'[Len(bounds')] ELSE bounds'[i])
                            ELSE W(pv - buckets'[i], i + 1)
            IN W(w, 1)

\* the Display output lists the non-empty buckets as [index, count]
ObsOK == /\ count' = Ev.obs.count /\ hmax' = Ev.obs.max
         /\ (hmin' = MAXI /\ Ev.obs.minmax) \/ (hmin' # MAXI /\ ~Ev.obs.minmax /\ hmin' = Ev.obs.min)
         /\ \A i \in DOMAIN buckets' : buckets'[i] = (IF \E j \in 1 .. Len(Ev.obs.buckets) : Ev.obs.buckets[j][1] = i
                                                        THEN Ev.obs.buckets[CHOOSE j \in 1 .. Len(Ev.obs.buckets) : Ev.obs.buckets[j][1] = i][2] ELSE 0)
         /\ \A j \in 1 .. Len(Ev.obs.pct) : Ev.obs.pct[j][3] = IF count' = 0 THEN bounds'[1] ELSE
                LET w == (count' * Ev.obs.pct[j][1]) \div Ev.obs.pct[j][2] IN WalkP(w)
         /\ (count' > 0) => (Ev.obs.mean100 - (sum' * 100) \div count') \in {-1, 0, 1}
TInit == l = 1 /\ bounds = <<1>> /\ buckets = [i \in 1 .. 2 |-> 0] /\ count = 0 /\ sum = 0 /\ hmin = MAXI /\ hmax = 0
TNew == Is("new") /\ HNew([i \in 1 .. Len(Ev.bounds) |-> Ev.bounds[i]]) /\ ObsOK
TUpd == Is("update") /\ HUpdate(Ev.v) /\ ObsOK
TClr == Is("clear") /\ HClear /\ ObsOK
TNext == TNew \/ TUpd \/ TClr
TSpec == TInit /\ [][TNext]_<<hvars, l>>
Accepted ==
    IF TLCGet("stats").diameter - 1 = Len(Rec) THEN TRUE
    ELSE /\ PrintT(<<"TRACE-REJECTED at line", TLCGet("stats").diameter, Rec[TLCGet("stats").diameter]>>)
         /\ FALSE
=============================================================================
