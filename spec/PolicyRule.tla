----------------------------- MODULE PolicyRule -----------------------------
(***************************************************************************)
(* The TinyLFU / sampled-LFU admission-eviction rule of C07 as pure        *)
(* operators over explicit values, so that every trace specification that  *)
(* sees recorded eviction rounds (Policy_Trace: the stand-alone policy;    *)
(* Cache_Trace: policy.add inside the cache processor, with estimates fed  *)
(* by real lookups through the ring and the policy worker) re-runs the     *)
(* SAME rule on them.                                                      *)
(*   c      : [key -> charge or Nil]     u : charged total     m : max_cost*)
(*   rounds : the recorded rounds [inc_hits, room, sample <<k,cost,hits>>, *)
(*            min_key, min_hits, rejected]                                 *)
(***************************************************************************)
EXTENDS Integers, Sequences, FiniteSets

CONSTANTS RNil, RSamples

RResidents(c) == { k \in DOMAIN c : c[k] # RNil }
RMin2(a, b) == IF a < b THEN a ELSE b
RRoom(u, m, cost) == m - (u + cost)

RSampleOf(r) == [j \in 1 .. Len(r.sample) |-> <<r.sample[j][1], r.sample[j][2]>>]
RHitsOf(r) == [k \in { r.sample[j][1] : j \in 1 .. Len(r.sample) } |->
                (CHOOSE t \in { r.sample[j] : j \in 1 .. Len(r.sample) } : t[1] = k)[3]]
RHitsConsistent(r) == \A i, j \in 1 .. Len(r.sample) : r.sample[i][1] = r.sample[j][1] => r.sample[i][3] = r.sample[j][3]
RMinHits(s, h) == LET hs == { h[s[i][1]] : i \in 1 .. Len(s) } IN CHOOSE x \in hs : \A y \in hs : x <= y

\* "sampled (five, or all if fewer)": right size; every entry is a current resident with its current charge, or a stale
\* duplicate of a victim of an earlier round of this add; the first fill draws distinct residents
RFillOK(c, s, prevLen, vs) ==
    /\ Len(s) = RMin2(RSamples, prevLen + Cardinality(RResidents(c)))
    /\ \A i \in 1 .. Len(s) :
          \/ s[i][1] \in RResidents(c) /\ s[i][2] = c[s[i][1]]
          \/ \E j \in 1 .. Len(vs) : vs[j] = s[i]
    /\ prevLen = 0 => \A i, j \in 1 .. Len(s) : i # j => s[i][1] # s[j][1]
    /\ Len(s) > prevLen => \E i \in 1 .. Len(s) : s[i][1] \in RResidents(c)

\* Re-run the loop on the recorded rounds.  Result: [ok, costs, used, victims, added]
RECURSIVE RLoop(_, _, _, _, _, _, _, _, _)
RLoop(c, u, m, rounds, i, prevLen, vs, k, cost) ==
    IF i > Len(rounds)
    THEN [ok |-> RRoom(u, m, cost) >= 0 /\ Len(rounds) >= 1,
          costs |-> [c EXCEPT ![k] = cost], used |-> u + cost, victims |-> vs, added |-> TRUE]
    ELSE LET r == rounds[i]
             s == RSampleOf(r)
             h == RHitsOf(r)
         IN IF ~( /\ RRoom(u, m, cost) < 0                 \* a round starts only while room is lacking
                  /\ r.room = RRoom(u, m, cost)
                  /\ RHitsConsistent(r)
                  /\ RFillOK(c, s, prevLen, vs)
                  /\ r.min_hits = RMinHits(s, h) )
            THEN [ok |-> FALSE, costs |-> c, used |-> u, victims |-> vs, added |-> FALSE]
            ELSE IF r.inc_hits < RMinHits(s, h)             \* rejected exactly when strictly less popular than the least popular candidate
            THEN [ok |-> r.rejected /\ i = Len(rounds), costs |-> c, used |-> u, victims |-> vs, added |-> FALSE]
            ELSE IF r.rejected \/ ~(\E j \in 1 .. Len(s) : s[j][1] = r.min_key) \/ h[r.min_key] # RMinHits(s, h) \/ h[r.min_key] > r.inc_hits
            THEN [ok |-> FALSE, costs |-> c, used |-> u, victims |-> vs, added |-> FALSE]
            ELSE LET vcost == (CHOOSE p \in { s[j] : j \in 1 .. Len(s) } : p[1] = r.min_key)[2]
                     ghost == c[r.min_key] = RNil
                 IN RLoop([c EXCEPT ![r.min_key] = RNil], IF ghost THEN u ELSE u - c[r.min_key], m, rounds, i + 1,
                          Len(s) - 1, Append(vs, <<r.min_key, vcost>>), k, cost)

RSameIncHits(rounds) == \A i, j \in 1 .. Len(rounds) : rounds[i].inc_hits = rounds[j].inc_hits
=============================================================================
