SPECIFICATION Spec
CONSTANTS
  Mod = 16
  Stripes = {1, 2, 3}
  MaxDelta = 5
  MaxOps = 5
INVARIANTS TypeOK PlainSumFits
CHECK_DEADLOCK FALSE
