-------------------------------- MODULE Ring --------------------------------
(***************************************************************************)
(* Lookup recording (src/ring.rs RingStripe / AsyncRingStripe,             *)
(* src/policy/sync.rs push + PolicyProcessor, src/policy/async.rs).        *)
(*                                                                         *)
(* Every lookup (hit or miss) appends the key's index hash to the pending  *)
(* batch; when the batch reaches buffer_items it is flushed: a non-        *)
(* blocking send to the policy worker's queue (bounded 3 in sync,          *)
(* unbounded in async).  A flushed batch is counted exactly once, as kept  *)
(* (gets_kept += n) or dropped (gets_dropped += n; queue full), or not at  *)
(* all once the policy is closed.  The worker applies a kept batch to the  *)
(* TinyLFU (Sketch.tla) one key at a time.                                 *)
(***************************************************************************)
EXTENDS Naturals, Sequences, FiniteSets

CONSTANTS Idx,          \* index hashes
          BufferItems,  \* batch size (0 and 1 both flush on every lookup)
          QueueCap,     \* 3 for sync; 0 stands for "unbounded" (async)
          Nil

VARIABLES ring,     \* Seq(Idx): pending batch
          queue,    \* Seq(Seq(Idx)): batches waiting for the worker
          kept, dropped,   \* metrics
          rec,      \* ghost: [Idx -> lookups applied to the estimator]
          pushed,   \* ghost: [Idx -> lookups made on the open cache]
          lostc,    \* ghost: [Idx -> lookups in dropped batches]
          polClosed,
          workerAlive

rvars == <<ring, queue, kept, dropped, rec, pushed, lostc, polClosed, workerAlive>>

Count(s, i) == Cardinality({ j \in 1 .. Len(s) : s[j] = i })
RECURSIVE CountAll(_, _)
CountAll(q, i) == IF q = <<>> THEN 0 ELSE Count(Head(q), i) + CountAll(Tail(q), i)
AddCounts(f, s) == [i \in Idx |-> f[i] + Count(s, i)]

RInit ==
    /\ ring = <<>> /\ queue = <<>> /\ kept = 0 /\ dropped = 0
    /\ rec = [i \in Idx |-> 0] /\ pushed = [i \in Idx |-> 0] /\ lostc = [i \in Idx |-> 0]
    /\ polClosed = FALSE /\ workerAlive = TRUE

QueueFull == QueueCap > 0 /\ Len(queue) >= QueueCap

\* a lookup of index i on an open cache
Push(i) ==
    LET b == Append(ring, i) IN
    /\ pushed' = [pushed EXCEPT ![i] = @ + 1]
    /\ IF Len(b) >= BufferItems
       THEN \* flush: the batch leaves the ring in every case
            /\ ring' = <<>>
            /\ IF polClosed THEN UNCHANGED <<queue, kept, dropped, lostc>>      \* policy.push returns Ok(false) silently
               ELSE IF QueueFull \/ ~workerAlive
                    THEN /\ dropped' = dropped + Len(b) /\ lostc' = AddCounts(lostc, b) /\ UNCHANGED <<queue, kept>>
                    ELSE /\ queue' = Append(queue, b) /\ kept' = kept + Len(b) /\ UNCHANGED <<dropped, lostc>>
       ELSE ring' = b /\ UNCHANGED <<queue, kept, dropped, lostc>>
    /\ UNCHANGED <<rec, polClosed, workerAlive>>

\* the policy worker applies one batch
Recv ==
    /\ workerAlive /\ queue # <<>>
    /\ rec' = AddCounts(rec, Head(queue))
    /\ queue' = Tail(queue)
    /\ UNCHANGED <<ring, kept, dropped, pushed, lostc, polClosed, workerAlive>>

\* clear(): metrics restart; the estimator is emptied (policy.clear)
RClear ==
    /\ kept' = 0 /\ dropped' = 0
    /\ rec' = [i \in Idx |-> 0]
    /\ UNCHANGED <<ring, queue, pushed, lostc, polClosed, workerAlive>>

RClosePolicy == polClosed' = TRUE /\ UNCHANGED <<ring, queue, kept, dropped, rec, pushed, lostc, workerAlive>>
RWorkerStop == workerAlive' = FALSE /\ UNCHANGED <<ring, queue, kept, dropped, rec, pushed, lostc, polClosed>>

---------------------------------------------------------------------------
\* C15
RingBounded == Len(ring) < (IF BufferItems = 0 THEN 1 ELSE BufferItems)
QueueBounded == QueueCap > 0 => Len(queue) <= QueueCap
\* each flushed batch is accounted exactly once: kept = everything queued or applied, dropped = everything lost
\* (between two clears)
RECURSIVE SumF(_, _)
SumF(f, S) == IF S = {} THEN 0 ELSE LET x == CHOOSE y \in S : TRUE IN f[x] + SumF(f, S \ {x})
\* every lookup is somewhere: pending, queued, applied, or in a dropped batch (or flushed after close)
Accounted(closedFlushes) ==
    \A i \in Idx : pushed[i] >= Count(ring, i) + CountAll(queue, i) + lostc[i]
\* once everything flushed has been processed the estimator has seen exactly the kept lookups
Reflected == (queue = <<>>) => \A i \in Idx : rec[i] <= pushed[i]
=============================================================================
