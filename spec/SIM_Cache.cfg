SPECIFICATION SimSpec
CONSTANTS
  Clients = {1, 2}
  Idx = {1, 3}
  Cfl = {0, 1, 2, 3}
  Val = {1, 2, 3, 4, 5, 6}
  SecUnits = 4
  Nil = Nil
  MCConf <- ConfSim
  MCKeys <- KeysSim
  CostSet = {1, 2}
  TtlSet = {0, 3}
  MaxCostSet = {2, 3}
  SetMaxSet = {1}
  AdvSet = {1, 2, 4}
  Budget = 5
  Ops = {"insert", "insert_if_present", "remove", "get", "wait", "clear", "close", "set_max"}
  TickOn = TRUE
  MaxNow = 16
  Depth = 60
  ClientOps <- AllOps
INVARIANTS PrintSchedule UsedIsSum Agree Conservation NeverTwice NoOrphan
CHECK_DEADLOCK FALSE
