SPECIFICATION MCSpec
CONSTANTS
  Keys = {1, 2, 3, 4}
  Samples = 2
  Nil = Nil
  CostSet = {1, 2, 3}
  MaxSet = {0, 2, 4}
  EstSet = {0, 1}
  MaxOps = 5
INVARIANTS UsedIsSum Bounded AdmissionBound RoomMeansNoVictims RoundOnlyWhenLacking VictimsGone VictimsNoMorePopular NotAddedNotCharged
CHECK_DEADLOCK FALSE
