------------------------------ MODULE MC_Ring ------------------------------
EXTENDS Ring
CONSTANT MaxOps
VARIABLE ops, sinceClear   \* sinceClear: ghost, kept+dropped lookups since the last clear / [Idx -> applied+queued]

MCInit == RInit /\ ops = 0 /\ sinceClear = 0
MCNext ==
    /\ ops < MaxOps /\ ops' = ops + 1
    /\ \/ \E i \in Idx : Push(i) /\ sinceClear' = sinceClear + (IF Len(ring) + 1 >= BufferItems /\ ~polClosed THEN Len(ring) + 1 ELSE 0)
       \/ Recv /\ UNCHANGED sinceClear
       \/ RClear /\ sinceClear' = 0
       \/ RClosePolicy /\ UNCHANGED sinceClear
       \/ RWorkerStop /\ UNCHANGED sinceClear
MCSpec == MCInit /\ [][MCNext]_<<rvars, ops, sinceClear>>

\* each flushed batch (while the policy is open) is counted exactly once as kept or dropped
KeptPlusDropped == kept + dropped = sinceClear
InvAccounted == Accounted(0)
=============================================================================
