SPECIFICATION TSpec
CONSTANTS
  Clients = {1, 2, 3}
  Idx = {1, 2, 3, 4, 5, 6, 7, 8, 9, 10}
  Cfl = {0, 1, 2, 3, 4, 5, 6, 7, 8}
  Val <- TraceVal
  SecUnits = 1000
  Nil = Nil
  Cmp <- CmpAll
INVARIANTS UsedIsSum Bounded Agree Conservation NeverTwice NothingLost ResidentOwned IndexExact NoOrphan MetricsLaws
POSTCONDITION Accepted
CHECK_DEADLOCK FALSE
