------------------------------ MODULE MC_Locks ------------------------------
(* Catalogue of stretto's critical sections, transcribed from the code (the comment names the place), and the
   configurations: MC_Locks (catalogue), MC_Locks_witness (catalogue + the pre-fix get_ttl), MC_Locks_observed
   (the programs recorded from the real code). *)
EXTENDS Locks, Json, IOUtils

A(role, mode) == <<"acq", role, mode>>
R(role) == <<"rel", role>>

\* store.get / get_mut: the guard lives in the ValueRef(Mut) until the caller drops it; get_ttl (after fix D10) reads
\* the deadline through that same guard
Get == << A("s1", "r"), R("s1") >>
GetMut == << A("s1", "w"), R("s1") >>
\* store.expiration (sweep's sanity check), store.len (every shard in turn)
Expiration == << A("s1", "r"), R("s1") >>
\* store.try_update / try_insert / try_remove: shard write lock, inside it em.try_update / try_insert / try_remove
Write == << A("s1", "w"), A("em", "w"), R("em"), R("s1") >>
\* a vetoed / conflicting write: shard only
WriteVeto == << A("s1", "w"), R("s1") >>
\* policy.add / update / remove / cost / clear / max_cost (one mutex, never nested)
Policy == << A("pol", "m"), R("pol") >>
\* processor, New item: policy.add, then store.try_insert
ProcNew == Policy \o Write
\* processor, Delete item: store.try_remove, then policy.remove
ProcDel == Write \o Policy
\* sweep: em.try_cleanup (takes the due buckets), then per key: expiration, policy.cost, policy.remove, store.try_remove
Sweep == << A("em", "w"), R("em") >> \o Expiration \o Policy \o Policy \o Write
\* clear(): policy.clear, every shard in turn, em.clear
Clear == Policy \o << A("s1", "w"), R("s1"), A("em", "w"), R("em") >>
\* lookup ring stripe push; policy worker applying a batch
Ring == << A("ring", "m"), R("ring") >>

\* BEFORE fix D10: get_ttl kept the ValueRef of its lookup alive while store.expiration took the shard's read lock again
GetTtlOld == << A("s1", "r"), A("same", "r"), R("same"), R("s1") >>

\* NOT stretto's code but its CALLERS': a thread that keeps a ValueRef (a read guard) alive and calls a writing
\* operation -- on another shard (two such threads deadlock crosswise) or on the same one (it deadlocks with itself).
\* The catalogue above is deadlock-free only for callers that drop their guards before the next call: MC_Locks_guard.cfg
\* makes that assumption visible (TLC must find the deadlock).
HoldThenWrite == << A("s1", "r"), A("s2", "w"), A("em", "w"), R("em"), R("s2"), R("s1") >>
HoldThenWriteSame == << A("s1", "r"), A("same", "w"), R("same"), R("s1") >>
GuardMisuse == {HoldThenWrite}
GuardMisuseSame == {HoldThenWriteSame}

Catalogue == {Get, GetMut, Write, WriteVeto, Policy, ProcNew, ProcDel, Sweep, Clear, Ring}
Witness == {GetTtlOld, Write}

\* programs observed in the real code: one JSON record per distinct program, field ops = sequence of op tuples
ToSetOfRecs == LET s == ndJsonDeserialize(IOEnv.PROGRAMS) IN { s[i] : i \in 1 .. Len(s) }
Observed == { r.ops : r \in ToSetOfRecs }

\* the catalogue is what the code does: every recorded program is a concatenation of the catalogue's atomic sections
\* (a new nesting shape, or a lock class used in a new way, does not decompose)
Atoms == { Get, GetMut, Write, Policy, Ring, << A("em", "w"), R("em") >> }
RECURSIVE Decomp(_)
Decomp(p) == \/ p = <<>>
             \/ \E a \in Atoms : /\ Len(a) <= Len(p) /\ SubSeq(p, 1, Len(a)) = a
                                  /\ Decomp(SubSeq(p, Len(a) + 1, Len(p)))
ObservedKnown == \A p \in Observed : Decomp(p) \/ (PrintT(<<"UNKNOWN-LOCK-PROGRAM", p>>) /\ FALSE)
=============================================================================
