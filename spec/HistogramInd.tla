--------------------------- MODULE HistogramInd ---------------------------
(***************************************************************************)
(* UNBOUNDED companion of Histogram.tla for Apalache: bounds <<2, 4, 8>>   *)
(* (four buckets), values drawn from all of Nat, no bound on the number of *)
(* updates / clears.  IndInv is inductive (Init => IndInv, --length=0;     *)
(* IndInv /\ Next => IndInv', --init=IndInit --length=1): count is the sum *)
(* of the buckets, every bucket is a natural number, and a non-empty       *)
(* histogram that was never cleared has min <= max -- after ANY history,   *)
(* where MC_Histogram.cfg enumerates <= 6 operations.                      *)
(***************************************************************************)
EXTENDS Integers

MAXI == 2^63 - 1
B == {1, 2, 3, 4}
Bound(i) == IF i = 1 THEN 2 ELSE IF i = 2 THEN 4 ELSE 8

VARIABLES
  \* @type: Int -> Int;
  buckets,
  \* @type: Int;
  count,
  \* @type: Int;
  sum,
  \* @type: Int;
  hmin,
  \* @type: Int;
  hmax,
  \* @type: Bool;
  cleared

BucketOf(v) == IF v < Bound(1) THEN 1 ELSE IF v < Bound(2) THEN 2 ELSE IF v < Bound(3) THEN 3 ELSE 4

Init == /\ buckets = [i \in B |-> 0]
        /\ count = 0 /\ sum = 0 /\ hmin = MAXI /\ hmax = 0 /\ cleared = FALSE

HUpdate(v) == /\ buckets' = [buckets EXCEPT ![BucketOf(v)] = @ + 1]
              /\ count' = count + 1 /\ sum' = sum + v
              /\ hmax' = IF v > hmax THEN v ELSE hmax
              /\ hmin' = IF v < hmin THEN v ELSE hmin
              /\ UNCHANGED cleared
HClear == /\ buckets' = [i \in B |-> 0] /\ count' = 0 /\ sum' = 0 /\ hmax' = 0 /\ hmin' = 0
          /\ cleared' = TRUE

Next == (\E v \in Int : v >= 0 /\ v <= MAXI /\ HUpdate(v)) \/ HClear

CountIsSum == count = buckets[1] + buckets[2] + buckets[3] + buckets[4]
TypeOK == /\ DOMAIN buckets = B
          /\ \A i \in B : buckets[i] >= 0
          /\ count >= 0 /\ sum >= 0 /\ hmax >= 0 /\ hmin >= 0
MinMax == (count > 0 /\ ~cleared) => hmin <= hmax
\* after clear() min is 0 (the code resets it to 0, not to i64::MAX), so min stays 0 <= max
MinAfterClear == cleared => hmin = 0
IndInv == TypeOK /\ CountIsSum /\ MinMax /\ MinAfterClear

IndInit == /\ buckets \in [B -> Int]
           /\ count \in Int /\ sum \in Int /\ hmin \in Int /\ hmax \in Int /\ cleared \in BOOLEAN
           /\ IndInv
=============================================================================
