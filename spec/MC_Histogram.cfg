SPECIFICATION MCSpec
CONSTANTS
  Values = {0, 1, 2, 3, 4, 7, 8, 9}
  MaxOps = 6
INVARIANTS CountIsSum MaxSeen PercentileIsBound
CHECK_DEADLOCK FALSE
