--------------------------- MODULE Policy_Trace ---------------------------
(***************************************************************************)
(* Validates traces of the real LFUPolicy (harness: `vh policy`) against   *)
(* Policy.tla.  Every add is logged with the rounds of its eviction loop   *)
(* (room, sample with the estimates actually used, chosen minimum), its    *)
(* result and the policy state afterwards.  The validator re-runs the      *)
(* rule of Policy.tla on the logged choices: each round must be a legal    *)
(* Round of the specification from the state the previous one left, the    *)
(* result must be the specified one and the state must match.              *)
(***************************************************************************)
EXTENDS Policy, Json, IOUtils

VARIABLE l
TraceKeys == 1 .. 32
Rec == ndJsonDeserialize(IOEnv.TRACE)
tvars == <<pvars, l>>

Ev == Rec[l]
Is(x) == l <= Len(Rec) /\ Ev.ev = x /\ l' = l + 1

PairsToCosts(ps) == [k \in Keys |-> IF \E i \in 1 .. Len(ps) : ps[i][1] = k
                                   THEN (CHOOSE p \in { ps[i] : i \in 1 .. Len(ps) } : p[1] = k)[2]
                                   ELSE Nil]
PostOK(p) == /\ costs' = PairsToCosts(p.costs) /\ used' = p.used /\ maxCost' = p.max
             /\ \A i \in 1 .. Len(p.costs) : p.costs[i][1] \in Keys

SampleOf(r) == [j \in 1 .. Len(r.sample) |-> <<r.sample[j][1], r.sample[j][2]>>]
HitsOf(r) == [k \in { r.sample[j][1] : j \in 1 .. Len(r.sample) } |->
                (CHOOSE t \in { r.sample[j] : j \in 1 .. Len(r.sample) } : t[1] = k)[3]]
HitsConsistent(r) == \A i, j \in 1 .. Len(r.sample) : r.sample[i][1] = r.sample[j][1] => r.sample[i][3] = r.sample[j][3]

\* sample rule without relying on the order in which the code keeps old candidates: right size;
\* every entry is a current resident with its current charge, or a stale duplicate of a victim of
\* an earlier round of this add (with the charge it had); the first fill draws distinct residents
FillOKLoose(c, sample, prevLen, vs) ==
    /\ Len(sample) = Min2(Samples, prevLen + Cardinality(Residents(c)))
    /\ \A i \in 1 .. Len(sample) :
          \/ sample[i][1] \in Residents(c) /\ sample[i][2] = c[sample[i][1]]
          \/ \E j \in 1 .. Len(vs) : vs[j] = sample[i]
    /\ prevLen = 0 => \A i, j \in 1 .. Len(sample) : i # j => sample[i][1] # sample[j][1]
    \* at least one real resident is among the candidates whenever one exists and was drawn
    /\ Len(sample) > prevLen => \E i \in 1 .. Len(sample) : sample[i][1] \in Residents(c)

\* Re-run the eviction loop on the logged rounds.  Result: [ok, costs, used, victims, added]
RECURSIVE Loop(_, _, _, _, _, _, _, _)
Loop(c, u, rounds, i, prevLen, vs, k, cost) ==
    IF i > Len(rounds)
    THEN [ok |-> Room(c, u, maxCost, cost) >= 0 /\ Len(rounds) >= 1,
          costs |-> [c EXCEPT ![k] = cost], used |-> u + cost, victims |-> vs, added |-> TRUE]
    ELSE LET r == rounds[i]
             s == SampleOf(r)
             h == HitsOf(r)
         IN IF ~( /\ Room(c, u, maxCost, cost) < 0          \* a round starts only while room is lacking
                  /\ r.room = Room(c, u, maxCost, cost)
                  /\ HitsConsistent(r)
                  /\ FillOKLoose(c, s, prevLen, vs)
                  /\ r.min_hits = MinHits(s, h) )
            THEN [ok |-> FALSE, costs |-> c, used |-> u, victims |-> vs, added |-> FALSE]
            ELSE IF Rejects(s, h, r.inc_hits)
            THEN [ok |-> r.rejected /\ i = Len(rounds), costs |-> c, used |-> u, victims |-> vs, added |-> FALSE]
            ELSE IF r.rejected \/ ~VictimOK(s, h, r.min_key) \/ h[r.min_key] > r.inc_hits
            THEN [ok |-> FALSE, costs |-> c, used |-> u, victims |-> vs, added |-> FALSE]
            ELSE LET vcost == (CHOOSE p \in { s[j] : j \in 1 .. Len(s) } : p[1] = r.min_key)[2]
                     ghost == c[r.min_key] = Nil
                 IN Loop([c EXCEPT ![r.min_key] = Nil], IF ghost THEN u ELSE u - c[r.min_key], rounds, i + 1,
                         Len(s) - 1, Append(vs, <<r.min_key, vcost>>), k, cost)

SameIncHits(rounds) == \A i, j \in 1 .. Len(rounds) : rounds[i].inc_hits = rounds[j].inc_hits

VictimSeq(v) == [i \in 1 .. Len(v) |-> <<v[i][1], v[i][2]>>]

TInit == l = 1 /\ costs = [k \in Keys |-> Nil] /\ used = 0 /\ maxCost = 0 /\ slack = 0 /\ ev = Nil
         /\ est = [k \in Keys |-> 0]

TNew == /\ Is("new") /\ costs' = [k \in Keys |-> Nil] /\ used' = 0 /\ maxCost' = Ev.max /\ slack' = 0 /\ ev' = Nil
        /\ UNCHANGED est

TAdd ==
    /\ Is("add") /\ Ev.k \in Keys
    /\ UNCHANGED est
    /\ \/ /\ Ev.path = "oversize" /\ Ev.cost > maxCost /\ ~Ev.added /\ ~Ev.hasv /\ Len(Ev.rounds) = 0
          /\ UNCHANGED <<costs, used, maxCost, slack>>
          /\ ev' = [phase |-> "done", k |-> Ev.k, cost |-> Ev.cost, added |-> FALSE, victims |-> <<>>, path |-> "oversize"]
       \/ /\ Ev.path = "present" /\ Ev.cost <= maxCost /\ costs[Ev.k] # Nil /\ ~Ev.added /\ ~Ev.hasv /\ Len(Ev.rounds) = 0
          /\ UNCHANGED <<costs, used, slack, maxCost>>
          /\ ev' = [phase |-> "done", k |-> Ev.k, cost |-> Ev.cost, added |-> FALSE, victims |-> <<>>, path |-> "present"]
       \/ /\ Ev.path = "room" /\ Ev.cost <= maxCost /\ costs[Ev.k] = Nil /\ Room(costs, used, maxCost, Ev.cost) >= 0
          /\ Ev.added /\ ~Ev.hasv /\ Len(Ev.rounds) = 0
          /\ costs' = [costs EXCEPT ![Ev.k] = Ev.cost] /\ used' = used + Ev.cost /\ slack' = 0 /\ UNCHANGED maxCost
          /\ ev' = [phase |-> "done", k |-> Ev.k, cost |-> Ev.cost, added |-> TRUE, victims |-> <<>>, path |-> "room"]
       \/ /\ Ev.path \in {"evicted", "rejected"} /\ Ev.cost <= maxCost /\ costs[Ev.k] = Nil
          /\ Room(costs, used, maxCost, Ev.cost) < 0
          /\ SameIncHits(Ev.rounds)
          /\ LET res == Loop(costs, used, Ev.rounds, 1, 0, <<>>, Ev.k, Ev.cost) IN
              /\ res.ok
              /\ res.added = Ev.added /\ (Ev.path = "evicted") = res.added
              /\ Ev.hasv /\ VictimSeq(Ev.victims) = res.victims
              /\ costs' = (IF res.added THEN res.costs ELSE res.costs)
              /\ used' = res.used
              /\ slack' = IF res.added THEN 0 ELSE Max2(0, slack - (used - res.used))
              /\ ev' = [phase |-> "done", k |-> Ev.k, cost |-> Ev.cost, added |-> res.added,
                        victims |-> res.victims, path |-> Ev.path]
          /\ UNCHANGED maxCost
    /\ PostOK(Ev.post)

TUpdate == /\ Is("update") /\ Ev.k \in Keys
           /\ IF costs[Ev.k] = Nil THEN UNCHANGED <<costs, used, slack>>
              ELSE /\ costs' = [costs EXCEPT ![Ev.k] = Ev.cost] /\ used' = used + Ev.cost - costs[Ev.k]
                   /\ slack' = Max2(0, slack + (Ev.cost - costs[Ev.k]))
           /\ ev' = Nil /\ UNCHANGED <<maxCost, est>> /\ PostOK(Ev.post)

TRemove == /\ Is("remove") /\ Ev.k \in Keys
           /\ IF costs[Ev.k] = Nil THEN UNCHANGED <<costs, used, slack>>
              ELSE /\ costs' = [costs EXCEPT ![Ev.k] = Nil] /\ used' = used - costs[Ev.k]
                   /\ slack' = Max2(0, slack - costs[Ev.k])
           /\ ev' = Nil /\ UNCHANGED <<maxCost, est>> /\ PostOK(Ev.post)

TClear == /\ Is("clear") /\ costs' = [k \in Keys |-> Nil] /\ used' = 0 /\ slack' = 0 /\ ev' = Nil
          /\ UNCHANGED <<maxCost, est>> /\ PostOK(Ev.post)

TSetMax == /\ Is("setmax") /\ maxCost' = Ev.max /\ slack' = slack + Max2(0, maxCost - Ev.max) /\ ev' = Nil
           /\ UNCHANGED <<costs, used, est>> /\ PostOK(Ev.post)

\* observers: max_cost(), cap(), cost(k), contains(k)
TObserve == /\ Is("observe") /\ UNCHANGED pvars
            /\ Ev.max = maxCost /\ Ev.cap = maxCost - used
            /\ \A i \in 1 .. Len(Ev.keys) :
                 LET k == Ev.keys[i][1] IN
                   /\ Ev.keys[i][2] = (IF costs[k] = Nil THEN -1 ELSE costs[k])
                   /\ Ev.keys[i][3] = (costs[k] # Nil)

\* popularity changes are not state of this trace spec (estimates are logged where they are used)
TBump == Is("bump") /\ UNCHANGED pvars

TNext == TNew \/ TAdd \/ TUpdate \/ TRemove \/ TClear \/ TSetMax \/ TObserve \/ TBump
TSpec == TInit /\ [][TNext]_tvars

Accepted ==
    IF TLCGet("stats").diameter - 1 = Len(Rec) THEN TRUE
    ELSE /\ PrintT(<<"TRACE-REJECTED at line", TLCGet("stats").diameter, Rec[TLCGet("stats").diameter]>>)
         /\ FALSE
=============================================================================
