----------------------------- MODULE MC_Sketch -----------------------------
(* Exhaustive exploration of Sketch.tla for toy dimensions. *)
EXTENDS Sketch, TLC

CONSTANTS NumCountersSet,  \* values of num_counters explored
          MaxOps           \* bound on the number of increments/clears

VARIABLE ops

\* three hashes: two that collide in some rows, ids 1..3; doorkeeper toy size 2^3, 2 probes
HS == { [id |-> 1, lo |-> 0, hi |-> 0, dlo |-> 1],
        [id |-> 2, lo |-> 1, hi |-> 3, dlo |-> 5],
        [id |-> 3, lo |-> 6, hi |-> 0, dlo |-> 1] }   \* id 3: same doorkeeper probes as id 1 (false positive)
SeedChoices == { <<0, 1, 2, 3>>, <<3, 5, 6, 1>> }

MCInit ==
    /\ \E n \in NumCountersSet : \E sd \in SeedChoices :
        /\ width = WidthBytes(n)
        /\ mask = MaskOf(n)
        /\ rows = [r \in 1 .. Depth |-> [j \in 0 .. WidthBytes(n) - 1 |-> 0]]
        /\ seeds = [r \in 1 .. Depth |-> sd[r]]
        /\ samples = n
        /\ out = <<"new", n>>
    /\ door = {} /\ dE = 3 /\ dLocs = 2 /\ w = 0
    /\ rec = [i \in {1, 2, 3} |-> 0]
    /\ ops = 0

MCNext ==
    /\ ops < MaxOps
    /\ ops' = ops + 1
    /\ \/ \E h \in HS : Increment(h)
       \/ Clear

\* estimates are pure reads: checked as state predicates instead of actions
MCSpec == MCInit /\ [][MCNext]_<<svars, ops>>

InvWellFormed == RowsWellFormed
InvIndex == IndexInRange(HS)
InvNeverUndercount == NeverUndercount(HS)
InvFreshZero == FreshZero(HS)
InvWBound == WBound
PropNoSpill == [][NoSpill(HS)]_svars
PropHalving == [][HalvingOnReset(HS)]_svars
PropResetAt == [][ResetExactlyAtSamples(HS)]_svars
PropClear == [][ClearZeroes]_svars
\* saturation is reachable (vacuity witness, expected to be violated when MaxOps >= 17)
WitnessSaturated == \A h \in HS : CmEstimate(h) < 15
=============================================================================
