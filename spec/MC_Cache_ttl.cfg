SPECIFICATION MCSpec
CONSTANTS
  Clients = {1}
  Idx = {1, 2}
  Cfl = {0, 1, 2}
  Val = {1, 2, 3}
  SecUnits = 4
  Nil = Nil
  MCConf <- ConfTtl
  MCKeys <- KeysTwo
  CostSet = {1}
  TtlSet = {0, 3}
  MaxCostSet = {5}
  SetMaxSet = {1}
  AdvSet = {2}
  Budget = 3
  Ops = {"insert", "remove", "clear"}
  TickOn = TRUE
  MaxNow = 10
INVARIANTS UsedIsSum Bounded Agree Conservation NeverTwice NothingLost ResidentOwned IndexExact NoOrphan MetricsLaws MetricsCounts NoLoss CondNeverCreates ClearEmpties ChargeFormula
CHECK_DEADLOCK FALSE
