-------------------------------- MODULE Cache --------------------------------
(***************************************************************************)
(* The stretto cache as a protocol between client threads, the cache       *)
(* processor and (abstractly) the policy worker.                           *)
(*                                                                         *)
(* Implementation-shaped: ONE ACTION PER CRITICAL SECTION of the code      *)
(* (src/cache.rs, src/cache/sync.rs, src/cache/async.rs, src/store.rs,     *)
(* src/ttl.rs, src/policy.rs); a public call that crosses several          *)
(* sections is several actions with a per-client program counter, exactly  *)
(* at the yield points the hooks expose (DESIGN.md 4.1, H4).  Every        *)
(* nondeterministic choice and every observable result is a PARAMETER of   *)
(* the action, so that Cache_Trace.tla can bind recorded values to it.     *)
(*                                                                         *)
(* Time is a natural number of clock units (SecUnits per second).          *)
(***************************************************************************)
EXTENDS Integers, Sequences, FiniteSets, TLC

CONSTANTS
    Clients,        \* client (thread) ids
    Idx,            \* index hashes
    Cfl,            \* conflict hashes (0 = "do not check")
    Val,            \* value ids (every write uses a fresh one)
    SecUnits,       \* clock units per second
    Nil

VARIABLES
    conf,       \* configuration of this cache instance, fixed at Init:
                \*   [bufcap, itemsize (0 when ignore_internal_cost), flavor ("sync"|"async"), coster, validator]
    store,      \* [Idx -> Nil \cup [cfl, val, rev, d, at]]    resident entries (d = 0: no TTL; rev counts get_mut writes)
    em,         \* set of [b, i, c]                            expiration buckets: key i (conflict c) in bucket b
    costs,      \* [Idx -> Nil \cup Int]                       policy: charged cost per key
    used,       \* Int                                         policy: charged total
    maxCost,    \* Int
    buf,        \* Seq(Item)                                   insert buffer
    clearQ,     \* Nat                                         pending clear signals
    proc,       \* processor: [pc, item, added, victims, keys, got, path]
    cli,        \* [Clients -> [pc, ...]]                      in-flight public calls
    closed,     \* BOOLEAN                                     Cache.is_closed
    pol,        \* [alive, closed, q, handles]                 policy worker, LFUPolicy.is_closed, async: its stop slot;
                \*                                             handles: some clone of the Cache still exists
    stopQ,      \* Nat                                         async only: stop messages in the capacity-1 channel
    wdone,      \* set of wait ids whose marker was released
    now,        \* clock
    met,        \* metrics counters (integers; the code's wrap-around arithmetic nets out to these)
    cbs,        \* callbacks fired by the LAST step: Seq([kind, val, cost])
    res,        \* result of the LAST completed public call: [c, op, out] or Nil
    \* ghosts
    outcnt,     \* [Val -> Nat]  how often a value was handed to a callback
    accepted,   \* values whose insert returned true
    owner,      \* [Val -> Nil \cup <<i, c>>]  key a value was written under
    dropped,    \* values dropped without callback by clear()/close() (allowed)
    lost,       \* values dropped without callback otherwise (never allowed)
    slack,      \* C01: cost added by in-place updates / lowered max since the last admission
    errSeen,    \* some public call returned an error
    orphans,    \* wait ids whose marker was destroyed unreleased (nobody will ever release them): always empty since fix D6
    kf,         \* known-finding signatures that occurred in this behaviour (see known_findings.json)
    gh          \* property ghosts: [want, fits, seqOK, badcb, cleared, lookups, drops, rejs, condv, vcost]

vars == <<conf, store, em, costs, used, maxCost, buf, clearQ, proc, cli, closed, pol, stopQ, wdone, now, met,
          cbs, res, outcnt, accepted, owner, dropped, lost, slack, errSeen, orphans, kf, gh>>

---------------------------------------------------------------------------
\* helpers

BufCap == conf.bufcap
ItemSize == conf.itemsize
Flavor == conf.flavor
\* Coster valuations and UpdateValidator predicates used by the harness / model checker
CosterOf(v) == CASE conf.coster = "const2" -> 2
                 [] conf.coster = "mod3" -> (v % 3) + 1
                 [] OTHER -> 0
ShouldUpdate(p, n) == CASE conf.validator = "always" -> TRUE
                        [] conf.validator = "sum5" -> (p + n) % 5 # 0
                        [] conf.validator = "asym3" -> (p + 2 * n) % 5 # 0
                        [] conf.validator = "veto_odd_next" -> ~(p % 2 = 1 /\ n = p + 1)
                        [] OTHER -> FALSE

Max2(a, b) == IF a > b THEN a ELSE b
Min2(a, b) == IF a < b THEN a ELSE b
Range(s) == { s[i] : i \in 1 .. Len(s) }
Keys == Idx \X Cfl

Resident == { i \in Idx : store[i] # Nil }
Charged == { i \in Idx : costs[i] # Nil }
RECURSIVE SumCosts(_, _)
SumCosts(c, S) == IF S = {} THEN 0 ELSE LET k == CHOOSE x \in S : TRUE IN c[k] + SumCosts(c, S \ {k})

\* ttl.rs: storage_bucket(t) = unix_seconds(created_at + d) + 1 ; cleanup_bucket(now) = unix_seconds(now)
\* Huge stands for a TTL of Duration::MAX ("never": what get_ttl reports for an entry without TTL, handed back to
\* insert_with_ttl); its deadline saturates and is filed under the last bucket, written LastBucket here (TLC's integers
\* are 32-bit; the implementation's is i64::MAX).  Such an entry never expires.
Huge == 2000000000
LastBucket == 2147483647
StorageBucket(at, d) == IF d = Huge THEN LastBucket ELSE ((at + d) \div SecUnits) + 1
CleanupBucket(t) == t \div SecUnits
Expired(e, t) == e.d > 0 /\ t - e.at >= e.d          \* Time::is_expired for an entry with a TTL
ConflictOK(c, e) == c = 0 \/ c = e.cfl               \* store.rs: `conflict != 0 && conflict != item.conflict` rejects

\* what a lookup sees (store.get / get_mut): <<value id, revision>> or Nil
Lookup(st, k, t) ==
    LET e == st[k[1]] IN
    IF e = Nil THEN Nil
    ELSE IF ~ConflictOK(k[2], e) THEN Nil
    ELSE IF Expired(e, t) THEN Nil
    ELSE <<e.val, e.rev>>

EmWithout(E, i, b) == { x \in E : ~(x.i = i /\ x.b = b) }
EmInsert(E, i, c, at, d) ==      \* ExpirationMap::try_insert
    IF d = 0 THEN E ELSE EmWithout(E, i, StorageBucket(at, d)) \cup {[b |-> StorageBucket(at, d), i |-> i, c |-> c]}
EmRemove(E, i, at, d) ==         \* ExpirationMap::try_remove (store calls it only when d > 0)
    IF d = 0 THEN E ELSE EmWithout(E, i, StorageBucket(at, d))
EmUpdate(E, i, c, oat, od, nat, nd) ==   \* ExpirationMap::try_update: only this key moves
    EmInsert(EmRemove(E, i, oat, od), i, c, nat, nd)

CB(kind, v, cost) == [kind |-> kind, val |-> v, cost |-> cost]
BumpOut(oc, seq) == [v \in Val |-> oc[v] + Cardinality({ j \in 1 .. Len(seq) : seq[j].val = v })]

ZeroMet == [hit |-> 0, miss |-> 0, keyAdd |-> 0, keyUpd |-> 0, keyEvict |-> 0, costAdd |-> 0,
            costEvict |-> 0, dropSets |-> 0, rejectSets |-> 0]

IdleProc == [pc |-> "idle"]
IdleCli == [pc |-> "idle"]

ProcAlive == proc.pc # "exited"

\* Known finding D7 (clear() runs on the client thread, unsynchronised with the processor):
\* signature = the processor applies an item while a clear signal is pending or a client is
\* between the sections of its clear(), or a client runs a clear section while the processor is
\* in the middle of an item.
ClrMid == {"clr_policy", "clr_store", "clr_metrics"}
ClearInProgress == clearQ > 0 \/ \E c \in Clients : cli[c].pc \in ClrMid
ProcRace == UNCHANGED conf /\ kf' = IF ClearInProgress THEN kf \cup {"D7"} ELSE kf
ClrRace == UNCHANGED conf /\ kf' = IF proc.pc \notin {"idle", "cleaning", "exited"} THEN kf \cup {"D7"} ELSE kf
BufRoom == Len(buf) < BufCap

---------------------------------------------------------------------------
\* Property ghosts (one record so that the actions stay readable):
\*  want    [Idx -> Nil or Int]  C04: charge asked for by the latest accepted write of a key not yet reclaimed
\*  fits    C04: the demand never exceeded max_cost and the insert buffer never overflowed
\*  seqOK   every public call so far started in a quiescent state (the "quiesce between operations" regime)
\*  badcb   C04: on_reject / on_evict records that are not TTL expiries or clear drains
\*  cleared C11: values whose insert had returned true before a clear() that has returned
\*  lookups, drops, rejs  C17: what hits+misses, sets_dropped, sets_rejected must equal
\*  condv   C09: values offered by insert_if_present calls that returned false
\*  vcost   C16: [Val -> charge asked for by the insert that wrote it]
GhInit == [want |-> [i \in Idx |-> Nil], fits |-> TRUE, seqOK |-> TRUE, badcb |-> 0, cleared |-> {},
           lookups |-> 0, drops |-> 0, rejs |-> 0, condv |-> {}, vcost |-> [v \in Val |-> 0]]
RECURSIVE SumWant(_, _)
SumWant(w, S) == IF S = {} THEN 0 ELSE LET k == CHOOSE x \in S : TRUE IN w[k] + SumWant(w, S \ {k})
WantTotal(w) == SumWant(w, { i \in Idx : w[i] # Nil })
QuiescentNow == /\ buf = <<>> /\ clearQ = 0 /\ proc.pc \in {"idle", "exited"}
                /\ \A c \in Clients : cli[c].pc = "idle"
\* every public call: does it start from quiescence?
GhCall(g) == [g EXCEPT !.seqOK = g.seqOK /\ QuiescentNow]
GhWant(g, i, ch, v) == LET w == [g.want EXCEPT ![i] = ch]
                       IN [g EXCEPT !.want = w, !.vcost[v] = ch, !.fits = g.fits /\ WantTotal(w) <= maxCost]

---------------------------------------------------------------------------
Init ==
    /\ store = [i \in Idx |-> Nil] /\ em = {}
    /\ costs = [i \in Idx |-> Nil] /\ used = 0
    /\ buf = <<>> /\ clearQ = 0 /\ proc = IdleProc
    /\ cli = [c \in Clients |-> IdleCli]
    /\ closed = FALSE /\ pol = [alive |-> TRUE, closed |-> FALSE, q |-> 0, handles |-> TRUE] /\ stopQ = 0 /\ wdone = {}
    /\ met = ZeroMet /\ cbs = <<>> /\ res = Nil
    /\ outcnt = [v \in Val |-> 0] /\ accepted = {} /\ owner = [v \in Val |-> Nil]
    /\ dropped = {} /\ lost = {} /\ slack = 0 /\ errSeen = FALSE /\ orphans = {} /\ kf = {} /\ gh = GhInit
    \* conf, maxCost and now are fixed by the configuration (MC / Trace module)

\* frame helpers
UNCH_store == UNCHANGED <<store, em>>
UNCH_pol == UNCHANGED <<costs, used, maxCost, slack>>
UNCH_chan == UNCHANGED <<buf, clearQ, stopQ, wdone, orphans>>
UNCH_life == UNCHANGED <<closed, pol>>
UNCH_ghost == UNCHANGED <<accepted, owner, dropped, lost, errSeen>>
UNCH_kf == UNCHANGED <<kf, conf>>
NoCb == cbs' = <<>> /\ UNCHANGED outcnt
Fire(seq) == cbs' = seq /\ outcnt' = BumpOut(outcnt, seq)
Done(c, op, out) == res' = [c |-> c, op |-> op, out |-> out]
\* typed results (the same shapes the harness logs)
OBool(b) == [t |-> "bool", b |-> b]
OOk == [t |-> "ok"]
OErr == [t |-> "err"]
ONone == [t |-> "none"]
OVal(p) == IF p = Nil THEN ONone ELSE [t |-> "val", v |-> p[1], r |-> p[2]]
OTtl(x) == IF x = Nil THEN ONone ELSE [t |-> "ttl", ms |-> x]
NoRes == res' = Nil


---------------------------------------------------------------------------
\* CLIENT ACTIONS

NewEntry(cf, v, d, at) == [cfl |-> cf, val |-> v, rev |-> 0, d |-> d, at |-> at]

\* insert / insert_with_ttl / insert_if_present, first section:
\* is_closed check, Time::now(), coster, store.try_update (validator, em.try_update, swap) and on_exit(old)
InsBegin(c, k, v, cost, d, onlyUpd) ==
    /\ cli[c].pc = "idle" /\ owner[v] = Nil /\ cost >= 0 /\ d >= 0
    /\ LET i == k[1]
           cf == k[2]
           e == store[i]
           ext == IF cost = 0 THEN CosterOf(v) ELSE 0
       IN
       IF closed THEN
            /\ Done(c, "insert", OBool(FALSE)) /\ NoCb
            /\ UNCHANGED <<store, em, cli, owner>>
       ELSE IF e # Nil /\ ConflictOK(cf, e) /\ ShouldUpdate(e.val, v) THEN
            \* UpdateResult::Update: value and deadline replaced at once; old value to on_exit
            /\ store' = [store EXCEPT ![i] = [e EXCEPT !.val = v, !.rev = 0, !.d = d, !.at = now]]
            /\ em' = EmUpdate(em, i, cf, e.at, e.d, now, d)
            /\ Fire(<<CB("exit", e.val, 0)>>)
            /\ owner' = [owner EXCEPT ![v] = <<i, e.cfl>>]
            /\ cli' = [cli EXCEPT ![c] = [pc |-> "ins_send", v |-> v,
                                          item |-> [t |-> "upd", i |-> i, cost |-> cost, ext |-> ext]]]
            /\ NoRes
       ELSE IF onlyUpd THEN
            \* NotExist / Conflict / Reject and insert_if_present: nothing happens
            /\ Done(c, "insert", OBool(FALSE)) /\ NoCb
            /\ UNCHANGED <<store, em, cli, owner>>
       ELSE
            /\ owner' = [owner EXCEPT ![v] = k]
            /\ cli' = [cli EXCEPT ![c] = [pc |-> "ins_send", v |-> v,
                                          item |-> [t |-> "new", i |-> i, c |-> cf, cost |-> cost + ext,
                                                    val |-> v, d |-> d, at |-> now,
                                                    \* ghost: the write was vetoed by the validator or hit a colliding key
                                                    vc |-> e # Nil]]]
            /\ NoRes /\ NoCb
            /\ UNCHANGED <<store, em>>
    /\ UNCH_pol /\ UNCH_chan /\ UNCH_life
    /\ UNCHANGED <<proc, now, met, accepted, dropped, lost, errSeen>>
    /\ UNCH_kf
    /\ gh' = LET g == GhCall(gh)
                  i == k[1]
                  e == store[i]
                  ext == IF cost = 0 THEN CosterOf(v) ELSE 0
              IN IF closed THEN g
                 ELSE IF e # Nil /\ ConflictOK(k[2], e) /\ ShouldUpdate(e.val, v)
                      THEN GhWant(g, i, cost + ext + ItemSize, v)
                      ELSE IF onlyUpd THEN [g EXCEPT !.condv = @ \cup {v}] ELSE g

\* second section: non-blocking send to the insert buffer
InsSend(c) ==
    /\ cli[c].pc = "ins_send"
    /\ LET it == cli[c].item IN
       IF ProcAlive /\ BufRoom THEN
            /\ buf' = Append(buf, it) /\ accepted' = accepted \cup {cli[c].v}
            /\ Done(c, "insert", OBool(TRUE)) /\ UNCHANGED met
       ELSE IF it.t = "upd" THEN
            \* the store was already updated: report true, the cost update is lost
            /\ accepted' = accepted \cup {cli[c].v}
            /\ Done(c, "insert", OBool(TRUE)) /\ UNCHANGED <<buf, met>>
       ELSE
            /\ met' = [met EXCEPT !.dropSets = @ + 1]
            /\ Done(c, "insert", OBool(FALSE)) /\ UNCHANGED <<buf, accepted>>
    /\ cli' = [cli EXCEPT ![c] = IdleCli]
    /\ NoCb /\ UNCH_store /\ UNCH_pol /\ UNCH_life
    /\ UNCHANGED <<clearQ, stopQ, wdone, orphans, proc, now, owner, dropped, lost, errSeen>>
    /\ UNCH_kf
    /\ gh' = LET it == cli[c].item IN
              IF it.t = "new"
              THEN IF ProcAlive /\ BufRoom
                   THEN (IF gh.want[it.i] = Nil THEN GhWant(gh, it.i, it.cost + ItemSize, it.val)
                         ELSE [gh EXCEPT !.vcost[it.val] = it.cost + ItemSize])
                   ELSE [gh EXCEPT !.fits = FALSE, !.drops = @ + 1]
              ELSE gh

\* get: is_closed check, (ring push: Ring.tla), store.get, Hit/Miss
Get(c, k) ==
    /\ cli[c].pc = "idle"
    /\ IF closed THEN Done(c, "get", ONone) /\ UNCHANGED met
       ELSE LET r == Lookup(store, k, now) IN
            /\ Done(c, "get", OVal(r))
            /\ met' = IF r = Nil THEN [met EXCEPT !.miss = @ + 1] ELSE [met EXCEPT !.hit = @ + 1]
    /\ NoCb /\ UNCH_store /\ UNCH_pol /\ UNCH_chan /\ UNCH_life /\ UNCH_ghost
    /\ UNCHANGED <<proc, cli, now>>
    /\ UNCH_kf
    /\ gh' = LET g == GhCall(gh) IN IF closed THEN g ELSE [g EXCEPT !.lookups = @ + 1]

\* get_mut followed by an in-place write through the guard
GetMut(c, k) ==
    /\ cli[c].pc = "idle"
    /\ IF closed THEN Done(c, "get_mut", ONone) /\ UNCHANGED <<met, store>>
       ELSE LET r == Lookup(store, k, now) IN
            /\ Done(c, "get_mut", OVal(r))
            /\ met' = IF r = Nil THEN [met EXCEPT !.miss = @ + 1] ELSE [met EXCEPT !.hit = @ + 1]
            /\ store' = IF r = Nil THEN store ELSE [store EXCEPT ![k[1]].rev = @ + 1]
    /\ NoCb /\ UNCHANGED em /\ UNCH_pol /\ UNCH_chan /\ UNCH_life /\ UNCH_ghost
    /\ UNCHANGED <<proc, cli, now>>
    /\ UNCH_kf
    /\ gh' = LET g == GhCall(gh) IN IF closed THEN g ELSE [g EXCEPT !.lookups = @ + 1]

\* get_ttl: no is_closed check, no metrics.  -1 stands for Duration::MAX
TtlOf(st, k, t) ==
    IF Lookup(st, k, t) = Nil THEN Nil
    ELSE LET e == st[k[1]] IN IF e.d = 0 \/ (e.d = Huge /\ t = e.at) THEN -1   \* Duration::MAX - 0 is Duration::MAX again
                              ELSE e.at + e.d - t
GetTtl(c, k) ==
    /\ cli[c].pc = "idle"
    /\ Done(c, "get_ttl", OTtl(TtlOf(store, k, now)))
    /\ NoCb /\ UNCH_store /\ UNCH_pol /\ UNCH_chan /\ UNCH_life /\ UNCH_ghost
    /\ UNCHANGED <<proc, cli, now, met>>
    /\ UNCH_kf
    /\ gh' = GhCall(gh)

\* remove, first section: store.try_remove (immediately) and on_exit
RemStore(c, k) ==
    /\ cli[c].pc = "idle"
    /\ LET i == k[1]
           cf == k[2]
           e == store[i]
       IN
       IF closed THEN
            /\ Done(c, "remove", OOk) /\ NoCb /\ UNCHANGED <<store, em, cli>>
       ELSE
            /\ IF e # Nil /\ ConflictOK(cf, e)
               THEN /\ store' = [store EXCEPT ![i] = Nil]
                    /\ em' = EmRemove(em, i, e.at, e.d)
                    /\ Fire(<<CB("exit", e.val, 0)>>)
               ELSE UNCH_store /\ NoCb
            /\ cli' = [cli EXCEPT ![c] = [pc |-> "rem_send", item |-> [t |-> "del", i |-> i, c |-> cf]]]
            /\ NoRes
    /\ UNCH_pol /\ UNCH_chan /\ UNCH_life /\ UNCH_ghost
    /\ UNCHANGED <<proc, now, met>>
    /\ UNCH_kf
    /\ gh' = LET g == GhCall(gh) IN
              IF ~closed /\ store[k[1]] # Nil /\ ConflictOK(k[2], store[k[1]])
              THEN [g EXCEPT !.want[k[1]] = Nil] ELSE g

\* second section: the Delete marker.  sync: try_send, a full buffer is an error.
RemSend(c) ==
    /\ cli[c].pc = "rem_send" /\ Flavor = "sync"
    /\ IF ProcAlive /\ BufRoom THEN
            /\ buf' = Append(buf, cli[c].item) /\ Done(c, "remove", OOk) /\ UNCHANGED errSeen
       ELSE /\ Done(c, "remove", OErr) /\ errSeen' = TRUE /\ UNCHANGED buf
    /\ cli' = [cli EXCEPT ![c] = IdleCli]
    /\ NoCb /\ UNCH_store /\ UNCH_pol /\ UNCH_life
    /\ UNCHANGED <<clearQ, stopQ, wdone, orphans, proc, now, met, accepted, owner, dropped, lost>>
    /\ UNCH_kf
    /\ UNCHANGED gh

\* async: send().await -- waits for room (RemBlock), the result is ignored, then returns Ok
RemSendA(c) ==
    /\ cli[c].pc \in {"rem_send", "rem_blocked"} /\ Flavor = "async"
    /\ \/ /\ ProcAlive /\ BufRoom /\ buf' = Append(buf, cli[c].item)
       \/ /\ ~ProcAlive /\ UNCHANGED buf
    /\ cli' = [cli EXCEPT ![c] = [pc |-> "rem_ret"]]
    /\ NoRes /\ NoCb /\ UNCH_store /\ UNCH_pol /\ UNCH_life /\ UNCH_ghost
    /\ UNCHANGED <<clearQ, stopQ, wdone, orphans, proc, now, met>>
    /\ UNCH_kf
    /\ UNCHANGED gh

RemBlock(c) ==
    /\ cli[c].pc = "rem_send" /\ Flavor = "async"
    /\ cli' = [cli EXCEPT ![c].pc = "rem_blocked"]
    /\ NoRes /\ NoCb /\ UNCH_store /\ UNCH_pol /\ UNCH_chan /\ UNCH_life /\ UNCH_ghost
    /\ UNCHANGED <<proc, now, met>>
    /\ UNCH_kf
    /\ UNCHANGED gh

RemRet(c) ==
    /\ cli[c].pc = "rem_ret"
    /\ Done(c, "remove", OOk) /\ cli' = [cli EXCEPT ![c] = IdleCli]
    /\ NoCb /\ UNCH_store /\ UNCH_pol /\ UNCH_chan /\ UNCH_life /\ UNCH_ghost
    /\ UNCHANGED <<proc, now, met>>
    /\ UNCH_kf
    /\ UNCHANGED gh

\* clear() and the clear() at the start of close(): four sections, all on the CLIENT thread
ClrSend(c, op) ==
    /\ cli[c].pc = "idle" /\ op \in {"clear", "close"}
    /\ IF closed THEN Done(c, op, OOk) /\ UNCHANGED <<clearQ, cli, errSeen>>
       ELSE IF ProcAlive THEN
            /\ clearQ' = clearQ + 1
            /\ cli' = [cli EXCEPT ![c] = [pc |-> "clr_policy", op |-> op, snap |-> accepted]]
            /\ NoRes /\ UNCHANGED errSeen
       ELSE Done(c, op, OErr) /\ errSeen' = TRUE /\ UNCHANGED <<clearQ, cli>>
    /\ NoCb /\ UNCH_store /\ UNCH_pol /\ UNCH_life
    /\ UNCHANGED <<buf, stopQ, wdone, orphans, proc, now, met, accepted, owner, dropped, lost>>
    /\ UNCH_kf
    /\ gh' = GhCall(gh)

ClrPolicy(c) ==
    /\ cli[c].pc = "clr_policy"
    /\ costs' = [i \in Idx |-> Nil] /\ used' = 0 /\ slack' = 0
    /\ cli' = [cli EXCEPT ![c].pc = "clr_store"]
    /\ NoRes /\ NoCb /\ UNCH_store /\ UNCH_chan /\ UNCH_life /\ UNCH_ghost
    /\ UNCHANGED <<maxCost, proc, now, met>>
    /\ ClrRace
    /\ UNCHANGED gh

\* store.clear(): every shard AND the expiration buckets; resident values are dropped without callback
ClrStore(c) ==
    /\ cli[c].pc = "clr_store"
    /\ dropped' = dropped \cup { store[i].val : i \in Resident }
    /\ store' = [i \in Idx |-> Nil] /\ em' = {}
    /\ cli' = [cli EXCEPT ![c].pc = "clr_metrics"]
    /\ NoRes /\ NoCb /\ UNCH_pol /\ UNCH_chan /\ UNCH_life
    /\ UNCHANGED <<proc, now, met, accepted, owner, lost, errSeen>>
    /\ ClrRace
    /\ gh' = [gh EXCEPT !.want = [i \in Idx |-> Nil]]

ClrMetrics(c) ==
    /\ cli[c].pc = "clr_metrics"
    /\ met' = ZeroMet
    /\ IF cli[c].op = "clear"
       THEN Done(c, "clear", OOk) /\ cli' = [cli EXCEPT ![c] = IdleCli]
       ELSE NoRes /\ cli' = [cli EXCEPT ![c] = [pc |-> "cls_stop"]]
    /\ NoCb /\ UNCH_store /\ UNCH_pol /\ UNCH_chan /\ UNCH_life /\ UNCH_ghost
    /\ UNCHANGED <<proc, now>>
    /\ ClrRace
    /\ gh' = [gh EXCEPT !.lookups = 0, !.drops = 0, !.rejs = 0, !.cleared = @ \cup cli[c].snap]

\* close(): stop signal to the cache processor.
\* sync: rendezvous channel -- the closer blocks until the processor takes it (PStop) or has gone.
\* async: capacity-1 channel -- completes at once if the slot is free.
ClsStopSend(c) ==
    /\ cli[c].pc = "cls_stop"
    /\ \/ /\ ~ProcAlive
          /\ Done(c, "close", OErr) /\ errSeen' = TRUE /\ cli' = [cli EXCEPT ![c] = IdleCli] /\ UNCHANGED stopQ
       \/ /\ Flavor = "async" /\ ProcAlive /\ stopQ = 0
          /\ stopQ' = 1 /\ cli' = [cli EXCEPT ![c].pc = "cls_pol"] /\ NoRes /\ UNCHANGED errSeen
       \/ /\ ~(Flavor = "async" /\ ProcAlive /\ stopQ = 0)
          /\ cli' = [cli EXCEPT ![c].pc = "cls_stop_wait"] /\ NoRes /\ UNCHANGED <<errSeen, stopQ>>
    /\ NoCb /\ UNCH_store /\ UNCH_pol /\ UNCH_life
    /\ UNCHANGED <<buf, clearQ, wdone, orphans, proc, now, met, accepted, owner, dropped, lost>>
    /\ UNCH_kf
    /\ UNCHANGED gh

\* a closer blocked in the stop send is released with an error once the receiver is gone
ClsStopFail(c) ==
    /\ cli[c].pc = "cls_stop_wait" /\ ~ProcAlive
    /\ Done(c, "close", OErr) /\ errSeen' = TRUE /\ cli' = [cli EXCEPT ![c] = IdleCli]
    /\ NoCb /\ UNCH_store /\ UNCH_pol /\ UNCH_chan /\ UNCH_life
    /\ UNCHANGED <<proc, now, met, accepted, owner, dropped, lost>>
    /\ UNCH_kf
    /\ UNCHANGED gh

\* policy.close(): is_closed check ...
ClsPol(c) ==
    /\ cli[c].pc = "cls_pol"
    /\ cli' = [cli EXCEPT ![c].pc = IF pol.closed THEN "cls_flag" ELSE "cls_pol_send"]
    /\ NoRes /\ NoCb /\ UNCH_store /\ UNCH_pol /\ UNCH_chan /\ UNCH_life /\ UNCH_ghost
    /\ UNCHANGED <<proc, now, met>>
    /\ UNCH_kf
    /\ UNCHANGED gh

\* ... then the stop signal to the policy worker (rendezvous in sync, capacity 1 in async)
ClsPolSend(c) ==
    /\ cli[c].pc = "cls_pol_send"
    /\ \/ /\ ~pol.alive
          /\ Done(c, "close", OErr) /\ errSeen' = TRUE /\ cli' = [cli EXCEPT ![c] = IdleCli] /\ UNCHANGED pol
       \/ /\ Flavor = "async" /\ pol.alive /\ pol.q = 0
          /\ pol' = [pol EXCEPT !.q = 1]
          /\ cli' = [cli EXCEPT ![c].pc = "cls_pol_done"] /\ NoRes /\ UNCHANGED errSeen
       \/ /\ cli' = [cli EXCEPT ![c].pc = "cls_pol_wait"] /\ NoRes /\ UNCHANGED <<errSeen, pol>>
    /\ NoCb /\ UNCH_store /\ UNCH_pol /\ UNCH_chan
    /\ UNCHANGED <<closed, proc, now, met, accepted, owner, dropped, lost>>
    /\ UNCH_kf
    /\ UNCHANGED gh

\* async: a send that found the slot free completes (possibly observed late)
ClsPolLate(c) ==
    /\ cli[c].pc = "cls_pol_wait" /\ Flavor = "async" /\ ((pol.alive /\ pol.q = 0) \/ ~pol.alive)
    /\ pol' = [pol EXCEPT !.q = 1]
    /\ cli' = [cli EXCEPT ![c].pc = "cls_pol_done"]
    /\ NoRes /\ NoCb /\ UNCH_store /\ UNCH_pol /\ UNCH_chan /\ UNCH_ghost
    /\ UNCHANGED <<closed, proc, now, met>>
    /\ UNCH_kf
    /\ UNCHANGED gh

\* (also when the processor has just taken the previous stop message: the woken sender may get its own
\* message into the slot before the exiting processor closes the channel -- it then never is consumed)
ClsStopLate(c) ==
    /\ cli[c].pc = "cls_stop_wait" /\ Flavor = "async" /\ ((ProcAlive /\ stopQ = 0) \/ ~ProcAlive)
    /\ stopQ' = 1
    /\ cli' = [cli EXCEPT ![c].pc = "cls_pol"]
    /\ NoRes /\ NoCb /\ UNCH_store /\ UNCH_pol /\ UNCH_life /\ UNCH_ghost
    /\ UNCHANGED <<buf, clearQ, wdone, orphans, proc, now, met>>
    /\ UNCH_kf
    /\ UNCHANGED gh

ClsPolFail(c) ==
    /\ cli[c].pc = "cls_pol_wait" /\ ~pol.alive
    /\ Done(c, "close", OErr) /\ errSeen' = TRUE /\ cli' = [cli EXCEPT ![c] = IdleCli]
    /\ NoCb /\ UNCH_store /\ UNCH_pol /\ UNCH_chan /\ UNCH_life
    /\ UNCHANGED <<proc, now, met, accepted, owner, dropped, lost>>
    /\ UNCH_kf
    /\ UNCHANGED gh

\* after the policy worker took the signal: LFUPolicy.is_closed = true
ClsPolFlag(c) ==
    /\ cli[c].pc = "cls_pol_done"
    /\ pol' = [pol EXCEPT !.closed = TRUE]
    /\ cli' = [cli EXCEPT ![c].pc = "cls_flag"]
    /\ NoRes /\ NoCb /\ UNCH_store /\ UNCH_pol /\ UNCH_chan /\ UNCH_ghost
    /\ UNCHANGED <<closed, proc, now, met>>
    /\ UNCH_kf
    /\ UNCHANGED gh

ClsFlag(c) ==
    /\ cli[c].pc = "cls_flag"
    /\ closed' = TRUE
    /\ Done(c, "close", OOk) /\ cli' = [cli EXCEPT ![c] = IdleCli]
    /\ NoCb /\ UNCH_store /\ UNCH_pol /\ UNCH_chan /\ UNCH_ghost
    /\ UNCHANGED <<pol, proc, now, met>>
    /\ UNCH_kf
    /\ UNCHANGED gh

\* wait(): is_closed check, try_send of a marker, then block until it is released
WaitSend(c) ==
    /\ cli[c].pc = "idle"
    /\ IF closed THEN Done(c, "wait", OOk) /\ UNCHANGED <<buf, cli, errSeen>>
       ELSE IF ProcAlive /\ BufRoom THEN
            /\ buf' = Append(buf, [t |-> "wait", w |-> c])
            /\ cli' = [cli EXCEPT ![c] = [pc |-> "wait_block"]]
            /\ NoRes /\ UNCHANGED errSeen
       ELSE Done(c, "wait", OErr) /\ errSeen' = TRUE /\ UNCHANGED <<buf, cli>>
    /\ NoCb /\ UNCH_store /\ UNCH_pol /\ UNCH_life
    /\ UNCHANGED <<clearQ, stopQ, wdone, orphans, proc, now, met, accepted, owner, dropped, lost>>
    /\ UNCH_kf
    /\ gh' = GhCall(gh)

\* entering wg.wait(): returns at once if the marker was already released.  Sync: the processor raises a flag when it
\* stops and the waiter looks at that flag after queueing its marker -- if it is up, nobody will take the marker out
\* any more and wait() returns without blocking (fix D6; the flag is exactly proc.pc = "exited").
WaitBlock(c) ==
    /\ cli[c].pc = "wait_block"
    /\ \/ /\ c \in wdone /\ wdone' = wdone \ {c}
          /\ Done(c, "wait", OOk) /\ cli' = [cli EXCEPT ![c] = IdleCli]
       \/ /\ Flavor = "sync" /\ proc.pc = "exited" /\ c \notin wdone /\ UNCHANGED wdone
          /\ Done(c, "wait", OOk) /\ cli' = [cli EXCEPT ![c] = IdleCli]
       \/ /\ ~(Flavor = "sync" /\ proc.pc = "exited")
          /\ cli' = [cli EXCEPT ![c].pc = "waiting"] /\ NoRes /\ UNCHANGED wdone
    /\ NoCb /\ UNCH_store /\ UNCH_pol /\ UNCH_life /\ UNCH_ghost
    /\ UNCHANGED <<buf, clearQ, stopQ, orphans, proc, now, met>>
    /\ UNCH_kf
    /\ UNCHANGED gh

WaitRet(c) ==
    /\ cli[c].pc = "waiting" /\ c \in wdone
    /\ wdone' = wdone \ {c}
    /\ Done(c, "wait", OOk) /\ cli' = [cli EXCEPT ![c] = IdleCli]
    /\ NoCb /\ UNCH_store /\ UNCH_pol /\ UNCH_life /\ UNCH_ghost
    /\ UNCHANGED <<buf, clearQ, stopQ, orphans, proc, now, met>>
    /\ UNCH_kf
    /\ UNCHANGED gh

\* update_max_cost: one atomic store
SetMax(c, m) ==
    /\ cli[c].pc = "idle"
    /\ maxCost' = m /\ slack' = slack + Max2(0, maxCost - m)
    /\ Done(c, "set_max", OOk)
    /\ NoCb /\ UNCH_store /\ UNCH_chan /\ UNCH_life /\ UNCH_ghost
    /\ UNCHANGED <<costs, used, proc, cli, now, met>>
    /\ UNCH_kf
    /\ gh' = LET g == GhCall(gh) IN [g EXCEPT !.fits = g.fits /\ WantTotal(g.want) <= m]

\* len() / max_cost(): pure reads
Observe(c) ==
    /\ cli[c].pc = "idle"
    /\ Done(c, "observe", [t |-> "obs", len |-> Cardinality(Resident), max |-> maxCost])
    /\ NoCb /\ UNCH_store /\ UNCH_pol /\ UNCH_chan /\ UNCH_life /\ UNCH_ghost
    /\ UNCHANGED <<proc, cli, now, met>>
    /\ UNCH_kf
    /\ gh' = GhCall(gh)

---------------------------------------------------------------------------
\* PROCESSOR ACTIONS (one select! iteration is one or more of these)

\* Walk a victim sequence <<key, cost>>.. as policy.add's loop produced it:
\* every victim is taken only while room is lacking; a victim is a charged key (its charge is
\* released and reported) or a stale duplicate of an earlier victim (nothing released).
RECURSIVE Evict(_, _, _, _, _)
Evict(cs, u, vs, j, cost) ==
    IF j > Len(vs) THEN [ok |-> TRUE, costs |-> cs, used |-> u, n |-> 0]
    ELSE LET v == vs[j] IN
         IF maxCost - (u + cost) >= 0 THEN [ok |-> FALSE, costs |-> cs, used |-> u, n |-> 0]
         ELSE IF cs[v[1]] = Nil
              THEN IF \E jj \in 1 .. j - 1 : vs[jj][1] = v[1]
                   THEN Evict(cs, u, vs, j + 1, cost)
                   ELSE [ok |-> FALSE, costs |-> cs, used |-> u, n |-> 0]
              ELSE IF v[2] # cs[v[1]] THEN [ok |-> FALSE, costs |-> cs, used |-> u, n |-> 0]
                   ELSE LET r == Evict([cs EXCEPT ![v[1]] = Nil], u - cs[v[1]], vs, j + 1, cost)
                        IN [r EXCEPT !.n = @ + 1]

\* take a New item and run policy.add (one mutex section).  path/victims/added are the
\* policy's choices (popularity is abstract here: any outcome the cost rule allows).
PNewAdd(path, victims, added) ==
    /\ proc.pc = "idle" /\ buf # <<>> /\ Head(buf).t = "new"
    /\ LET it == Head(buf)
           i == it.i
           cost == it.cost + ItemSize
       IN
       /\ \/ /\ path = "oversize" /\ cost > maxCost /\ ~added /\ victims = <<>>
             /\ UNCHANGED <<costs, used, slack, met>>
          \* already charged: the item will be rejected, the resident entry keeps its charge
          \/ /\ path = "present" /\ cost <= maxCost /\ costs[i] # Nil /\ ~added /\ victims = <<>>
             /\ UNCHANGED <<costs, used, slack, met>>
          \/ /\ path = "room" /\ cost <= maxCost /\ costs[i] = Nil /\ maxCost - (used + cost) >= 0
             /\ added /\ victims = <<>>
             /\ costs' = [costs EXCEPT ![i] = cost] /\ used' = used + cost /\ slack' = 0
             /\ met' = [met EXCEPT !.costAdd = @ + cost]
          \/ /\ path \in {"evicted", "rejected"} /\ cost <= maxCost /\ costs[i] = Nil
             /\ maxCost - (used + cost) < 0
             /\ LET r == Evict(costs, used, victims, 1, cost) IN
                /\ r.ok
                /\ IF path = "evicted"
                   THEN /\ added /\ Len(victims) >= 1 /\ maxCost - (r.used + cost) >= 0
                        /\ costs' = [r.costs EXCEPT ![i] = cost] /\ used' = r.used + cost /\ slack' = 0
                        /\ met' = [met EXCEPT !.costAdd = @ + cost, !.costEvict = @ + (used - r.used), !.keyEvict = @ + r.n]
                   ELSE /\ ~added /\ maxCost - (r.used + cost) < 0
                        /\ costs' = r.costs /\ used' = r.used /\ slack' = Max2(0, slack - (used - r.used))
                        /\ met' = [met EXCEPT !.rejectSets = @ + 1, !.costEvict = @ + (used - r.used), !.keyEvict = @ + r.n]
       /\ proc' = [pc |-> "new_store", item |-> it, added |-> added, victims |-> victims, cost |-> cost, path |-> path]
    /\ buf' = Tail(buf)
    /\ NoRes /\ NoCb /\ UNCH_store /\ UNCH_life /\ UNCH_ghost
    /\ UNCHANGED <<maxCost, clearQ, stopQ, wdone, orphans, cli, now>>
    /\ ProcRace
    /\ gh' = IF path = "rejected" THEN [gh EXCEPT !.rejs = @ + 1] ELSE gh

\* after policy.add: store.try_insert + track_admission, or on_reject
PNewStore ==
    /\ proc.pc = "new_store"
    /\ LET it == proc.item
           i == it.i
           e == store[i]
       IN
       IF proc.added THEN
            /\ IF e = Nil THEN
                    /\ store' = [store EXCEPT ![i] = NewEntry(it.c, it.val, it.d, it.at)]
                    /\ em' = EmInsert(em, i, it.c, it.at, it.d)
                    /\ UNCHANGED lost
               ELSE IF ~ConflictOK(it.c, e) \/ ~ShouldUpdate(e.val, it.val) THEN
                    \* admitted by the policy but the store refuses: the new value vanishes
                    /\ UNCH_store /\ lost' = lost \cup {it.val}
               ELSE \* overwrites a resident entry the policy did not know: the old value vanishes
                    /\ store' = [store EXCEPT ![i] = NewEntry(it.c, it.val, it.d, it.at)]
                    /\ em' = EmUpdate(em, i, it.c, e.at, e.d, it.at, it.d)
                    /\ lost' = lost \cup {e.val}
            /\ met' = [met EXCEPT !.keyAdd = @ + 1]
            /\ NoCb
       ELSE /\ Fire(<<CB("reject", it.val, proc.cost)>>)
            /\ UNCH_store /\ UNCHANGED <<lost, met>>
    /\ proc' = IF proc.victims # <<>> THEN [pc |-> "victims", victims |-> proc.victims] ELSE IdleProc
    /\ NoRes /\ UNCH_pol /\ UNCH_chan /\ UNCH_life
    /\ UNCHANGED <<cli, now, accepted, owner, dropped, errSeen>>
    /\ ProcRace
    /\ gh' = IF proc.added \/ proc.item.vc THEN gh ELSE [gh EXCEPT !.badcb = @ + 1]

\* one victim: store.try_remove(key, 0) and on_evict with the cost the policy charged
PVictim ==
    /\ proc.pc = "victims"
    /\ LET v == Head(proc.victims)
           e == store[v[1]]
       IN
       /\ IF e # Nil
          THEN /\ store' = [store EXCEPT ![v[1]] = Nil]
               /\ em' = EmRemove(em, v[1], e.at, e.d)
               /\ Fire(<<CB("evict", e.val, v[2])>>)
          ELSE UNCH_store /\ NoCb
       /\ proc' = IF Tail(proc.victims) # <<>> THEN [proc EXCEPT !.victims = Tail(@)] ELSE IdleProc
    /\ NoRes /\ UNCH_pol /\ UNCH_chan /\ UNCH_life /\ UNCH_ghost
    /\ UNCHANGED <<cli, now, met>>
    /\ ProcRace
    /\ gh' = IF store[Head(proc.victims)[1]] # Nil
              THEN [gh EXCEPT !.badcb = @ + 1, !.want[Head(proc.victims)[1]] = Nil] ELSE gh

\* charged-cost update of a key (policy.update)
PolicyUpdate(i, cost) ==
    IF costs[i] = Nil THEN UNCHANGED <<costs, used, slack, met>>
    ELSE /\ costs' = [costs EXCEPT ![i] = cost] /\ used' = used + cost - costs[i]
         /\ slack' = Max2(0, slack + (cost - costs[i]))
         /\ met' = [met EXCEPT !.keyUpd = @ + 1, !.costAdd = @ + (cost - costs[i])]

PolicyRemove(i) ==
    IF costs[i] = Nil THEN UNCHANGED <<costs, used, slack, met>>
    ELSE /\ costs' = [costs EXCEPT ![i] = Nil] /\ used' = used - costs[i]
         /\ slack' = Max2(0, slack - costs[i])
         /\ met' = [met EXCEPT !.keyEvict = @ + 1, !.costEvict = @ + costs[i]]

PUpd ==
    /\ proc.pc = "idle" /\ buf # <<>> /\ Head(buf).t = "upd"
    /\ LET it == Head(buf) IN PolicyUpdate(it.i, it.cost + ItemSize + it.ext)
    /\ buf' = Tail(buf)
    /\ NoRes /\ NoCb /\ UNCH_store /\ UNCH_life /\ UNCH_ghost
    /\ UNCHANGED <<maxCost, clearQ, stopQ, wdone, orphans, proc, cli, now>>
    /\ ProcRace
    /\ UNCHANGED gh

\* Delete marker, first section: store.try_remove(key, conflict)
PDel ==
    /\ proc.pc = "idle" /\ buf # <<>> /\ Head(buf).t = "del"
    /\ LET it == Head(buf)
           e == store[it.i]
       IN IF e # Nil /\ ConflictOK(it.c, e)
          THEN /\ store' = [store EXCEPT ![it.i] = Nil]
               /\ em' = EmRemove(em, it.i, e.at, e.d)
               /\ proc' = [pc |-> "del_policy", item |-> it, removed |-> e.val]
          ELSE /\ UNCH_store
               /\ proc' = [pc |-> "del_policy", item |-> it, removed |-> Nil]
    /\ buf' = Tail(buf)
    /\ NoRes /\ NoCb /\ UNCH_pol /\ UNCH_life /\ UNCH_ghost
    /\ UNCHANGED <<clearQ, stopQ, wdone, orphans, cli, now, met>>
    /\ ProcRace
    /\ UNCHANGED gh

\* second section: the charge is released unless another key (same index, other conflict) is
\* still resident; then on_exit for what the first section removed
PDelPolicy ==
    /\ proc.pc = "del_policy"
    /\ IF proc.removed # Nil \/ store[proc.item.i] = Nil
       THEN PolicyRemove(proc.item.i)
       ELSE UNCHANGED <<costs, used, slack, met>>
    /\ IF proc.removed # Nil THEN Fire(<<CB("exit", proc.removed, 0)>>) ELSE NoCb
    /\ proc' = IdleProc
    /\ NoRes /\ UNCH_store /\ UNCH_chan /\ UNCH_life /\ UNCH_ghost
    /\ UNCHANGED <<maxCost, cli, now>>
    /\ ProcRace
    /\ UNCHANGED gh

PWait ==
    /\ proc.pc = "idle" /\ buf # <<>> /\ Head(buf).t = "wait"
    /\ wdone' = wdone \cup {Head(buf).w}
    /\ buf' = Tail(buf)
    /\ NoRes /\ NoCb /\ UNCH_store /\ UNCH_pol /\ UNCH_life /\ UNCH_ghost
    /\ UNCHANGED <<clearQ, stopQ, orphans, proc, cli, now, met>>
    /\ UNCH_kf
    /\ UNCHANGED gh

\* clear signal: the cleaner drains the buffer item by item without applying anything
PClrTake ==
    /\ proc.pc = "idle" /\ clearQ > 0
    /\ clearQ' = clearQ - 1
    /\ proc' = [pc |-> "cleaning", left |-> Len(buf)]   \* drops what is buffered NOW and no more (see PCleanEnd)
    /\ NoRes /\ NoCb /\ UNCH_store /\ UNCH_pol /\ UNCH_life /\ UNCH_ghost
    /\ UNCHANGED <<buf, stopQ, wdone, orphans, cli, now, met>>
    /\ UNCH_kf
    /\ UNCHANGED gh

PCleanItem ==
    /\ proc.pc = "cleaning" /\ proc.left > 0 /\ buf # <<>>
    /\ LET it == Head(buf) IN
       /\ IF it.t = "new" THEN Fire(<<CB("evict", it.val, it.cost)>>) ELSE NoCb
       /\ wdone' = IF it.t = "wait" THEN wdone \cup {it.w} ELSE wdone
    /\ buf' = Tail(buf)
    /\ proc' = [proc EXCEPT !.left = @ - 1]
    /\ NoRes /\ UNCH_store /\ UNCH_pol /\ UNCH_life /\ UNCH_ghost
    /\ UNCHANGED <<clearQ, stopQ, orphans, cli, now, met>>
    /\ UNCH_kf
    /\ UNCHANGED gh

\* The drain is bounded by the number of items buffered when it started: items that clients send while it runs stay
\* in the buffer and are applied afterwards (they belong to the time after the clear).  Draining "until the buffer is
\* found empty" -- what the code did before fix D9 -- never ends while other threads keep inserting, and a close()
\* waiting for the processor then never returns (liveness property CloseReturnsUnderLoad of MC_Cache_load).
PCleanEnd ==
    /\ proc.pc = "cleaning" /\ (proc.left = 0 \/ buf = <<>>)
    /\ proc' = IdleProc
    /\ NoRes /\ NoCb /\ UNCH_store /\ UNCH_pol /\ UNCH_chan /\ UNCH_life /\ UNCH_ghost
    /\ UNCHANGED <<cli, now, met>>
    /\ UNCH_kf
    /\ UNCHANGED gh

\* cleanup tick: take every due bucket (number <= cleanup_bucket(now)); the processor then holds the
\* set of their <<key, conflict>> entries and works through it in some order
Due == { x \in em : x.b <= CleanupBucket(now) }
PTick ==
    /\ proc.pc = "idle"
    /\ em' = em \ Due
    /\ proc' = IF Due = {} THEN [pc |-> "cleanup_done", got |-> <<>>]
               ELSE [pc |-> "cleanup", keys |-> { <<x.i, x.c>> : x \in Due }, got |-> <<>>]
    /\ NoRes /\ NoCb /\ UNCHANGED store /\ UNCH_pol /\ UNCH_chan /\ UNCH_life /\ UNCH_ghost
    /\ UNCHANGED <<cli, now, met>>
    /\ ProcRace
    /\ UNCHANGED gh

\* one key of the swept buckets: the store must agree that it has a TTL and that it has elapsed;
\* then policy.cost, policy.remove, store.try_remove(key, conflict of the bucket entry)
PCleanupKey(i) ==
    /\ proc.pc = "cleanup"
    /\ \E kk \in proc.keys : kk[1] = i
    /\ LET kk == CHOOSE x \in proc.keys : x[1] = i
           cf == kk[2]
           e == store[i]
           rest == proc.keys \ {kk}
           nextpc == IF rest = {} THEN "cleanup_done" ELSE "cleanup"
       IN
       IF e # Nil /\ Expired(e, now) THEN
            /\ PolicyRemove(i)
            /\ IF ConflictOK(cf, e)
               THEN /\ store' = [store EXCEPT ![i] = Nil]
                    /\ em' = EmRemove(em, i, e.at, e.d)
                    /\ proc' = [pc |-> nextpc, keys |-> rest,
                                got |-> Append(proc.got, CB("evict", e.val, IF costs[i] = Nil THEN -1 ELSE costs[i]))]
               ELSE /\ UNCH_store
                    /\ proc' = [proc EXCEPT !.pc = nextpc, !.keys = rest]
       ELSE /\ UNCH_store /\ UNCHANGED <<costs, used, slack, met>>
            /\ proc' = [proc EXCEPT !.pc = nextpc, !.keys = rest]
    /\ NoRes /\ NoCb /\ UNCH_chan /\ UNCH_life /\ UNCH_ghost
    /\ UNCHANGED <<maxCost, cli, now>>
    /\ ProcRace
    /\ gh' = IF store[i] # Nil /\ Expired(store[i], now) /\ store'[i] = Nil
              THEN [gh EXCEPT !.want[i] = Nil] ELSE gh

\* the collected entries go to on_evict
PCleanupDone ==
    /\ proc.pc = "cleanup_done"
    /\ Fire(proc.got)
    /\ proc' = IdleProc
    /\ NoRes /\ UNCH_store /\ UNCH_pol /\ UNCH_chan /\ UNCH_life /\ UNCH_ghost
    /\ UNCHANGED <<cli, now, met>>
    /\ ProcRace
    /\ UNCHANGED gh

\* stop signal: the loop returns; receivers are dropped and with them everything still buffered
BufWaits == { buf[j].w : j \in { jj \in 1 .. Len(buf) : buf[jj].t = "wait" } }
BufVals == { buf[j].val : j \in { jj \in 1 .. Len(buf) : buf[jj].t = "new" } }
PStop(c) ==
    /\ proc.pc = "idle"
    /\ IF Flavor = "sync"
       THEN /\ cli[c].pc = "cls_stop_wait"
            /\ cli' = [cli EXCEPT ![c].pc = "cls_pol"]
            /\ UNCHANGED stopQ
       ELSE /\ stopQ > 0 /\ stopQ' = 0 /\ UNCHANGED cli
    /\ proc' = [pc |-> "exited"]
    \* what is still buffered is dropped by the processor before it goes; a Wait marker releases its waiter when it is
    \* dropped (fix D6: it used to be destroyed with the channel, or not at all, and the waiter blocked for ever)
    /\ wdone' = wdone \cup BufWaits
    /\ UNCHANGED <<orphans, kf, conf>>
    /\ dropped' = dropped \cup BufVals
    /\ buf' = <<>> /\ clearQ' = 0
    /\ NoRes /\ NoCb /\ UNCH_store /\ UNCH_pol /\ UNCH_life
    /\ UNCHANGED <<now, met, accepted, owner, lost, errSeen>>
    /\ UNCHANGED gh

\* the policy worker takes its stop signal (sync: rendezvous with closer c; async: from its slot)
LStop(c) ==
    /\ pol.alive
    /\ IF Flavor = "sync"
       THEN /\ cli[c].pc = "cls_pol_wait"
            /\ cli' = [cli EXCEPT ![c].pc = "cls_pol_done"]
            /\ pol' = [pol EXCEPT !.alive = FALSE]
       ELSE /\ pol.q > 0
            /\ pol' = [pol EXCEPT !.alive = FALSE, !.q = 0]
            /\ UNCHANGED cli
    /\ NoRes /\ NoCb /\ UNCH_store /\ UNCH_pol /\ UNCH_chan /\ UNCH_ghost
    /\ UNCHANGED <<closed, proc, now, met>>
    /\ UNCH_kf
    /\ UNCHANGED gh

\* EVERY HANDLE IS DROPPED WITHOUT close() (C12: "... and also when every handle is dropped").  There is no Drop impl:
\* the senders of the three channels go away with the last clone, the processor finds its receivers disconnected --
\* buffered items can still be applied (a disconnected channel hands out what it holds first), and once select! takes the
\* stop arm the loop returns and drops the rest.  The processor owned the last reference to the policy: its channels
\* disconnect in turn and the policy worker returns.  Bound to the code by the free-running "drop" instances
\* (FWorkersGone on real threads / tasks): the stepped processor of the harness is never dropped.
DropAll ==
    /\ pol.handles /\ \A c \in Clients : cli[c].pc = "idle"
    /\ pol' = [pol EXCEPT !.handles = FALSE]
    /\ NoRes /\ NoCb /\ UNCH_store /\ UNCH_pol /\ UNCH_chan /\ UNCH_ghost
    /\ UNCHANGED <<closed, proc, cli, now, met>>
    /\ UNCH_kf
    /\ UNCHANGED gh

PStopDisc ==
    /\ ~pol.handles /\ proc.pc = "idle"
    /\ proc' = [pc |-> "exited"]
    /\ dropped' = dropped \cup BufVals
    /\ buf' = <<>> /\ clearQ' = 0
    /\ NoRes /\ NoCb /\ UNCH_store /\ UNCH_pol /\ UNCH_life
    /\ UNCHANGED <<stopQ, wdone, orphans, cli, now, met, accepted, owner, lost, errSeen>>
    /\ UNCH_kf
    /\ UNCHANGED gh

LStopDisc ==
    /\ ~pol.handles /\ proc.pc = "exited" /\ pol.alive
    /\ pol' = [pol EXCEPT !.alive = FALSE]
    /\ NoRes /\ NoCb /\ UNCH_store /\ UNCH_pol /\ UNCH_chan /\ UNCH_ghost
    /\ UNCHANGED <<closed, proc, cli, now, met>>
    /\ UNCH_kf
    /\ UNCHANGED gh

\* the clock
Advance(dt) ==
    /\ dt > 0 /\ now' = now + dt
    /\ NoRes /\ NoCb /\ UNCH_store /\ UNCH_pol /\ UNCH_chan /\ UNCH_life /\ UNCH_ghost
    /\ UNCHANGED <<proc, cli, met>>
    /\ UNCH_kf
    /\ UNCHANGED gh

---------------------------------------------------------------------------
\* PROPERTIES

Quiescent == /\ buf = <<>> /\ clearQ = 0 /\ proc.pc = "idle"
             /\ \A c \in Clients : cli[c].pc = "idle"

\* C01
UsedIsSum == used = SumCosts(costs, Charged)
\* (an empty cache is within every bound: update_max_cost also takes zero and negative values, under which nothing is admitted)
Bounded == used = 0 \/ used <= maxCost + slack
\* C06
NoKF == kf = {}
Agree == (NoKF /\ Quiescent /\ ~errSeen) => Resident = Charged
\* C08
ResidentCount(v) == Cardinality({ i \in Idx : store[i] # Nil /\ store[i].val = v })
BufferedCount(v) == Cardinality({ j \in 1 .. Len(buf) : buf[j].t = "new" /\ buf[j].val = v })
Conservation ==
    (NoKF /\ Quiescent) => \A v \in accepted :
        ResidentCount(v) + outcnt[v] + (IF v \in dropped THEN 1 ELSE 0) = 1
NeverTwice == \A v \in Val : outcnt[v] <= 1
NothingLost == NoKF => lost = {}
\* C02 / C08 / C18: what is resident was written under that very key and was never handed out
ResidentOwned ==
    NoKF => \A i \in Resident :
        LET v == store[i].val IN
        /\ owner[v] # Nil /\ owner[v][1] = i
        /\ (owner[v][2] = store[i].cfl \/ owner[v][2] = 0 \/ store[i].cfl = 0)
        /\ outcnt[v] = 0 /\ v \notin dropped
\* C05 (inductive core): every resident TTL entry is indexed in the bucket of its deadline, and
\* nothing else is indexed -- except the keys the processor currently holds from a swept bucket
Held == IF proc.pc = "cleanup" THEN { kk[1] : kk \in proc.keys } ELSE {}
IndexExact ==
    /\ \A i \in Resident : (store[i].d > 0 /\ i \notin Held) =>
          \E x \in em : x.i = i /\ x.b = StorageBucket(store[i].at, store[i].d)
    /\ \A x \in em : store[x.i] # Nil /\ store[x.i].d > 0 /\ x.b = StorageBucket(store[x.i].at, store[x.i].d)
\* C10
NoOrphan == ("D6" \notin kf) => \A c \in Clients : cli[c].pc \in {"waiting", "wait_block"} => c \notin orphans
\* C04: below capacity, with quiescence between calls, nothing is refused, evicted or lost
NoLoss == (NoKF /\ gh.fits /\ gh.seqOK /\ Quiescent) =>
    /\ gh.badcb = 0
    /\ Resident = { i \in Idx : gh.want[i] # Nil }
    /\ Resident \subseteq Charged
\* C09: insert_if_present that returned false created nothing
CondNeverCreates ==
    \A v \in gh.condv : v \notin accepted /\ ResidentCount(v) = 0 /\ BufferedCount(v) = 0 /\ outcnt[v] = 0
\* C11: nothing accepted before a clear() that has returned is resident at quiescence
ClearEmpties == (NoKF /\ Quiescent) => \A i \in Resident : store[i].val \notin gh.cleared
\* C16: with quiescence between writes, the charge of a resident entry is the one its insert asked for
\* (indices that two distinct keys have been written under are left out: a colliding insert re-charges)
SharedIndex(i) == \E v \in Val : owner[v] # Nil /\ owner[v][1] = i /\ owner[v][2] # owner[store[i].val][2]
ChargeFormula == (NoKF /\ gh.seqOK /\ Quiescent /\ ~errSeen) =>
    \A i \in Resident : (i \in Charged /\ ~SharedIndex(i)) => costs[i] = gh.vcost[store[i].val]
\* C17
MetricsCounts == (NoKF /\ Quiescent) =>
    /\ met.hit + met.miss = gh.lookups
    /\ met.dropSets = gh.drops
    /\ met.rejectSets = gh.rejs
MetricsLaws == (NoKF /\ Quiescent) =>
    /\ met.keyAdd - met.keyEvict = Cardinality(Charged)
    /\ met.costAdd - met.costEvict = used
=============================================================================
