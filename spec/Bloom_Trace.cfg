SPECIFICATION TSpec
INVARIANTS NoFalseNegative ResetEmpties BitBound
POSTCONDITION Accepted
CHECK_DEADLOCK FALSE
