SPECIFICATION TSpec
CONSTANTS
  Idx = {1, 2, 3, 4, 5, 6, 7, 8, 9, 10}
  BufferItems = 64
  QueueCap = 3
  Nil = Nil
INVARIANTS TRingBounded TQueueBounded TAccounted TReflected
POSTCONDITION Accepted
CHECK_DEADLOCK FALSE
