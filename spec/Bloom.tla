------------------------------- MODULE Bloom -------------------------------
(***************************************************************************)
(* The doorkeeper Bloom filter of src/bbloom.rs, as pure operators.        *)
(*                                                                         *)
(* A filter is a set B of bit positions in 0 .. 2^e - 1.  A 64-bit hash is *)
(* represented by the two numbers the filter uses:                         *)
(*     hi = hash >> (64-e)      (its top e bits)                           *)
(*     lo = hash mod 2^e        (the code's l = (hash << shift) >> shift)  *)
(* Probe i (0 <= i < locs) is at position (hi + i*lo) mod 2^e.             *)
(* Because lo < 2^e and i < locs <= 30, everything stays below 2^31 for    *)
(* e <= 24 (TLC integers are 32 bit).                                      *)
(***************************************************************************)
EXTENDS Naturals, FiniteSets

Pow2(n) == 2 ^ n

\* probe positions of a hash
Positions(hi, lo, locs, e) == { (hi + i * lo) % Pow2(e) : i \in 0 .. locs - 1 }

Add(B, hi, lo, locs, e) == B \cup Positions(hi, lo, locs, e)

Contains(B, hi, lo, locs, e) == Positions(hi, lo, locs, e) \subseteq B

(***************************************************************************)
(* Sizing (Bloom::new(cap, rate) with rate < 1).  rate is given as         *)
(* milliLog = round(1000 * log10(1/rate)).  The code computes, in floating *)
(* point,  entries = cap * ln(1/rate) / ln(2)^2 = cap * 4.79253 * log10(1/rate) *)
(* and locs = ceil(ln 2 * entries / cap) = ceil(3.32193 * log10(1/rate)),  *)
(* then rounds the bit count up to a power of two, at least 512.           *)
(* The integer formulas below bracket the floating-point value with a      *)
(* relative slack of 1e-3, which is what the conformance check accepts.    *)
(***************************************************************************)
\* (32-bit integers: cap * milliLog must stay below 2^31, i.e. cap <= 10^5 for rates >= 1e-6)
EntriesLo(cap, milliLog) == (((cap * milliLog) \div 1000) * 4787) \div 1000        \* 4.79253 * (1 - 1e-3), rounded down
EntriesHi(cap, milliLog) == ((((cap * milliLog) \div 1000) + 1) * 4798) \div 1000 + 1 \* 4.79253 * (1 + 1e-3), rounded up

RECURSIVE ExpFor(_, _)
ExpFor(n, e) == IF Pow2(e) >= n THEN e ELSE ExpFor(n, e + 1)

\* the exponent the code must choose lies between these two
ExpLo(cap, milliLog) == ExpFor(IF EntriesLo(cap, milliLog) < 512 THEN 512 ELSE EntriesLo(cap, milliLog), 0)
ExpHi(cap, milliLog) == ExpFor(IF EntriesHi(cap, milliLog) < 512 THEN 512 ELSE EntriesHi(cap, milliLog), 0)

\* locs = ceil(3.32193 * milliLog/1000), bracketed like the bit count: at rate 0.5 the exact value is
\* 1.0 and the floating-point result is 1 or 2 depending on the capacity
LocsLo(milliLog) == (milliLog * 331861 + 99999999) \div 100000000      \* 3.32193 * (1 - 1e-3)
LocsHi(milliLog) == (milliLog * 332525 + 99999999) \div 100000000      \* 3.32193 * (1 + 1e-3)
Locs(milliLog) == LocsLo(milliLog)

SizingOK(cap, milliLog, e, locs) ==
    /\ e >= ExpLo(cap, milliLog)
    /\ e <= ExpHi(cap, milliLog)
    /\ locs >= LocsLo(milliLog) /\ locs <= LocsHi(milliLog)
    /\ locs >= 1

=============================================================================
