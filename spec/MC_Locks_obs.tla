---------------------------- MODULE MC_Locks_obs ----------------------------
(* MC_Locks with the recorded programs (IOEnv.PROGRAMS) as the catalogue; checked once, before the search: every
   recorded program decomposes into the atomic sections of the transcribed catalogue. *)
EXTENDS MC_Locks
ASSUME ObservedKnown
=============================================================================
