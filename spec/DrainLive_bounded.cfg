SPECIFICATION Spec
CONSTANTS
  Cap = 3
  BoundedDrain = TRUE
INVARIANT TypeOK
PROPERTIES CloseReturns DrainEnds
CHECK_DEADLOCK FALSE
