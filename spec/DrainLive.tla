----------------------------- MODULE DrainLive -----------------------------
(***************************************************************************)
(* close() UNDER SUSTAINED LOAD.  Cache.tla's clients have finite budgets,  *)
(* so its liveness configs cannot say what happens while other threads     *)
(* never stop inserting; with unbounded clients its counters and ghosts    *)
(* make the state space infinite.  This module is the projection of        *)
(* Cache.tla onto what matters for that question -- the insert buffer's    *)
(* length, the processor's place in its select! loop, the clear signal and *)
(* a closing client -- with producers that never stop:                     *)
(*                                                                         *)
(*   Cache.tla                       here                                  *)
(*   InsSend (any client, for ever)  Produce                               *)
(*   ClrSend(c,"close") .. ClsStopSend   CloserClear (sections on the      *)
(*                                   client thread elided), closer waits   *)
(*   PNewAdd/PUpd/PDel/PWait ...     ProcInsert (one buffered item)        *)
(*   PClrTake / PCleanItem / PCleanEnd   ProcTakeClear / ProcDrainItem /   *)
(*                                   ProcDrainEnd                          *)
(*   PStop                           ProcStop (rendezvous with the closer) *)
(*                                                                         *)
(* BoundedDrain = TRUE is the code after fix D9 (drain what was buffered   *)
(* when the drain started); FALSE is the code before it (drain until the   *)
(* buffer is FOUND empty): TLC then exhibits the lasso in which the        *)
(* processor never leaves the drain and the closer waits for ever -- the   *)
(* behaviour reproduced on the real code by findings/d9_close_under_load.rs*)
(* and by the free-running "close under load" stage.                       *)
(*                                                                         *)
(* Fairness: the processor keeps taking steps (WF); select! chooses among  *)
(* its ready arms at random, so an arm that is ready again and again is    *)
(* eventually taken (SF on the stop and clear arms).  Producers have no    *)
(* fairness: they may, and in the counterexample do, run for ever.         *)
(***************************************************************************)
EXTENDS Naturals

CONSTANTS Cap,            \* insert buffer capacity
          BoundedDrain    \* TRUE: drain bounded by the buffer length at its start (after fix D9)

VARIABLES buf,            \* number of buffered items
          pc,             \* processor: "select" | "drain" | "exited"
          left,           \* items the drain may still take (BoundedDrain)
          clearQ,         \* clear signal pending
          closer          \* "idle" | "stop_wait" | "done"

vars == <<buf, pc, left, clearQ, closer>>

Init == buf = 0 /\ pc = "select" /\ left = 0 /\ clearQ = 0 /\ closer = "idle"

\* other threads: insert for ever (a full buffer drops the item; once the processor is gone nothing is sent)
Produce == /\ pc # "exited" /\ buf < Cap
           /\ buf' = buf + 1
           /\ UNCHANGED <<pc, left, clearQ, closer>>

\* close(): clear() sends the clear signal (its sections on the client thread are not of interest here), then the
\* closer offers the stop signal and blocks until the processor takes it
CloserClear == /\ closer = "idle" /\ clearQ = 0
               /\ clearQ' = 1 /\ closer' = "stop_wait"
               /\ UNCHANGED <<buf, pc, left>>

ProcInsert == /\ pc = "select" /\ buf > 0
              /\ buf' = buf - 1
              /\ UNCHANGED <<pc, left, clearQ, closer>>

ProcTakeClear == /\ pc = "select" /\ clearQ = 1
                 /\ clearQ' = 0 /\ pc' = "drain" /\ left' = buf
                 /\ UNCHANGED <<buf, closer>>

ProcDrainItem == /\ pc = "drain" /\ buf > 0 /\ (BoundedDrain => left > 0)
                 /\ buf' = buf - 1 /\ left' = IF left > 0 THEN left - 1 ELSE 0
                 /\ UNCHANGED <<pc, clearQ, closer>>

ProcDrainEnd == /\ pc = "drain" /\ (buf = 0 \/ (BoundedDrain /\ left = 0))
                /\ pc' = "select" /\ left' = 0
                /\ UNCHANGED <<buf, clearQ, closer>>

ProcStop == /\ pc = "select" /\ closer = "stop_wait" /\ clearQ = 0
            /\ pc' = "exited" /\ closer' = "done"
            /\ UNCHANGED <<buf, left, clearQ>>

Proc == ProcInsert \/ ProcTakeClear \/ ProcDrainItem \/ ProcDrainEnd \/ ProcStop
Next == Produce \/ CloserClear \/ Proc

Spec == Init /\ [][Next]_vars /\ WF_vars(Proc) /\ WF_vars(CloserClear) /\ SF_vars(ProcStop) /\ SF_vars(ProcTakeClear)

TypeOK == buf \in 0 .. Cap /\ left \in 0 .. Cap /\ clearQ \in {0, 1}
          /\ pc \in {"select", "drain", "exited"} /\ closer \in {"idle", "stop_wait", "done"}

\* C12 / C20: a close() that has started returns, whatever the other threads do
CloseReturns == (closer = "stop_wait") ~> (closer = "done")
\* the processor always gets back to its select! (ticks, stop and ordinary inserts are served again)
DrainEnds == (pc = "drain") ~> (pc # "drain")
=============================================================================
