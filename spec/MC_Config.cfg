SPECIFICATION Spec
INVARIANTS AcceptedWellFormed RejectsZero
CHECK_DEADLOCK FALSE
