SPECIFICATION MCFairSpec
CONSTANTS
  Clients = {1, 2}
  Idx = {1}
  Cfl = {0, 1}
  Val = {1}
  SecUnits = 4
  Nil = Nil
  MCConf <- ConfConc
  MCKeys <- KeysOne
  CostSet = {1}
  TtlSet = {0}
  MaxCostSet = {1}
  SetMaxSet = {1}
  AdvSet = {}
  Budget = 2
  Ops = {"insert", "wait", "clear", "close", "drop"}
  TickOn = FALSE
  MaxNow = 0
PROPERTIES EveryCallReturnsStrict
CHECK_DEADLOCK FALSE
