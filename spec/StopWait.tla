------------------------------ MODULE StopWait ------------------------------
(***************************************************************************)
(* The repair of D6 at the grain Cache.tla does not have: PStop is one     *)
(* step there, but in the sync processor it is three --                    *)
(*     raise the `stopped` flag;  drop what is buffered (a Wait marker     *)
(*     releases its waiter when dropped);  return (the receiver is dropped:*)
(*     the channel is disconnected, but a crossbeam channel keeps what is  *)
(*     in it for as long as a sender exists)                               *)
(* -- and a waiter is four: is_closed check (not modelled: false), queue   *)
(* the marker (fails once the channel is disconnected), look at the flag,  *)
(* block on the wait group unless the flag is up.  No yield point of the   *)
(* harness separates these steps, so the ordering argument is checked here *)
(* for every interleaving:  a waiter that reads the flag as down queued    *)
(* its marker before the flag went up, hence before the sweep.             *)
(*                                                                         *)
(* Variant selects the protocol:                                            *)
(*   "fixed"      flag, then sweep, then disconnect; waiter checks flag    *)
(*   "closefirst" AsyncCache: close the channel, then sweep (no flag)      *)
(*   "noflag"     sweep, then disconnect; waiter does not look at a flag   *)
(*                (a marker queued between sweep and disconnect is lost)   *)
(*   "flaglate"   sweep, then flag, then disconnect (same window)          *)
(*   "nosweep"    the code before the repair: disconnect only              *)
(* TLC: EveryWaiterReturns holds for "fixed" and "closefirst" and fails    *)
(* for the other three (StopWait_*.cfg); the driver requires exactly that. *)
(***************************************************************************)
EXTENDS Naturals, FiniteSets

CONSTANTS Waiters, Variant

VARIABLES ppc,        \* processor: "run" | "flagged" | "swept" | "gone"   (order of the middle two depends on Variant)
          flag,       \* the `stopped` flag
          connected,  \* the receiver still exists
          chan,       \* markers in the channel (set of waiters)
          released,   \* waiters whose marker was dropped or applied
          wpc         \* [Waiters -> "idle" | "sent" | "blocked" | "done"]

vars == <<ppc, flag, connected, chan, released, wpc>>

Init == ppc = "run" /\ flag = FALSE /\ connected = TRUE /\ chan = {} /\ released = {} /\ wpc = [w \in Waiters |-> "idle"]

\* ---- processor: stop signal taken, the loop is about to return
Raise == /\ flag' = TRUE /\ UNCHANGED <<connected, chan, released, wpc>>
Sweep == /\ released' = released \cup chan /\ chan' = {} /\ UNCHANGED <<flag, connected, wpc>>
Gone  == /\ connected' = FALSE /\ UNCHANGED <<flag, chan, released, wpc>>

ProcStep ==
    CASE Variant = "fixed" ->
            \/ ppc = "run" /\ Raise /\ ppc' = "flagged"
            \/ ppc = "flagged" /\ Sweep /\ ppc' = "swept"
            \/ ppc = "swept" /\ Gone /\ ppc' = "gone"
      [] Variant = "flaglate" ->
            \/ ppc = "run" /\ Sweep /\ ppc' = "swept"
            \/ ppc = "swept" /\ Raise /\ ppc' = "flagged"
            \/ ppc = "flagged" /\ Gone /\ ppc' = "gone"
      [] Variant = "closefirst" ->   \* AsyncCache: close the channel (nothing can be queued any more, what is in it stays), then sweep
            \/ ppc = "run" /\ connected' = FALSE /\ UNCHANGED <<flag, chan, released, wpc>> /\ ppc' = "flagged"
            \/ ppc = "flagged" /\ Sweep /\ ppc' = "gone"
      [] Variant = "noflag" ->
            \/ ppc = "run" /\ Sweep /\ ppc' = "swept"
            \/ ppc = "swept" /\ Gone /\ ppc' = "gone"
      [] OTHER ->   \* "nosweep"
            ppc = "run" /\ Gone /\ ppc' = "gone"

\* while it runs the processor may also apply a marker like any other item
Apply == /\ ppc = "run" /\ chan # {}
         /\ \E w \in chan : chan' = chan \ {w} /\ released' = released \cup {w}
         /\ UNCHANGED <<ppc, flag, connected, wpc>>

\* ---- waiter
Send(w) == /\ wpc[w] = "idle"
           /\ IF connected THEN chan' = chan \cup {w} /\ wpc' = [wpc EXCEPT ![w] = "sent"]
                           ELSE UNCHANGED chan /\ wpc' = [wpc EXCEPT ![w] = "done"]     \* Err(disconnected): returns
           /\ UNCHANGED <<ppc, flag, connected, released>>
Check(w) == /\ wpc[w] = "sent"
            /\ wpc' = [wpc EXCEPT ![w] = IF Variant \in {"fixed", "flaglate"} /\ flag THEN "done" ELSE "blocked"]
            /\ UNCHANGED <<ppc, flag, connected, chan, released>>
Wake(w) == /\ wpc[w] = "blocked" /\ w \in released
           /\ wpc' = [wpc EXCEPT ![w] = "done"]
           /\ UNCHANGED <<ppc, flag, connected, chan, released>>

Next == ProcStep \/ Apply \/ \E w \in Waiters : Send(w) \/ Check(w) \/ Wake(w)
Spec == Init /\ [][Next]_vars /\ WF_vars(ProcStep) /\ \A w \in Waiters : WF_vars(Check(w) \/ Wake(w))

TypeOK == chan \subseteq Waiters /\ released \subseteq Waiters /\ ppc \in {"run", "flagged", "swept", "gone"}
\* C10: a wait() that has queued its marker returns, whatever the stopping processor does meanwhile
EveryWaiterReturns == \A w \in Waiters : (wpc[w] = "sent") ~> (wpc[w] = "done")
\* and nobody is left blocked once everything has settled
NoOrphan == (ppc = "gone" /\ ~connected) => \A w \in Waiters : wpc[w] = "blocked" => w \in released
=============================================================================
