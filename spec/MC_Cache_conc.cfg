SPECIFICATION MCSpec
CONSTANTS
  Clients = {1, 2}
  Idx = {1, 2}
  Cfl = {0, 1, 2}
  Val = {1, 2, 3}
  SecUnits = 4
  Nil = Nil
  MCConf <- ConfConc
  MCKeys <- KeysTwo
  CostSet = {1}
  TtlSet = {0}
  MaxCostSet = {1}
  SetMaxSet = {1}
  AdvSet = {}
  Budget = 2
  Ops = {"insert", "remove", "wait", "clear"}
  TickOn = FALSE
  MaxNow = 0
INVARIANTS UsedIsSum Bounded Agree Conservation NeverTwice NothingLost ResidentOwned IndexExact NoOrphan MetricsLaws MetricsCounts NoLoss CondNeverCreates ClearEmpties ChargeFormula
CHECK_DEADLOCK FALSE
