------------------------------- MODULE Sketch -------------------------------
(***************************************************************************)
(* TinyLFU popularity estimator (src/policy.rs TinyLFU, src/sketch.rs      *)
(* CountMinRow / CountMinSketch, doorkeeper from src/bbloom.rs).           *)
(*                                                                         *)
(* Rows are modelled at BYTE level with the arithmetic of the code         *)
(* (two 4-bit counters per byte, `+= 1 << shift`, `(v >> 1) & 0x77`), so   *)
(* "touches only the addressed nibble", "saturates at 15 instead of        *)
(* spilling into the neighbour" and "reset halves every counter" are       *)
(* checked properties of the model, not assumptions.                       *)
(*                                                                         *)
(* A hash is a record [id, lo, hi, dlo]:                                   *)
(*   lo  = hash mod 2^30  (enough for (hash ^ seed) & mask, mask < 2^30)   *)
(*   hi, dlo = the two numbers the doorkeeper uses (see Bloom.tla)         *)
(***************************************************************************)
EXTENDS Naturals, Sequences, FiniteSets, Bitwise, Bloom

CONSTANTS Depth          \* rows of the sketch (4 in the code)

VARIABLES rows,     \* [1..Depth -> [0..width-1 -> 0..255]]
          seeds,    \* [1..Depth -> Nat]   (low 30 bits of the real seeds)
          width,    \* bytes per row
          mask,     \* counters per row - 1
          door,     \* doorkeeper: set of bit positions
          dE, dLocs,\* doorkeeper exponent and probes
          w,        \* records since the last reset
          samples,  \* reset threshold (= num_counters)
          rec,      \* ghost: [hash id -> records since last reset / clear]
          out       \* last observable result

svars == <<rows, seeds, width, mask, door, dE, dLocs, w, samples, rec, out>>

---------------------------------------------------------------------------
\* Sizing as it must be for every num_counters >= 1 (C13/C20): a power of two,
\* at least 2 counters (one byte) per row.
RECURSIVE NextPow2From(_, _)
NextPow2From(n, p) == IF p >= n THEN p ELSE NextPow2From(n, 2 * p)
NextPow2(n) == NextPow2From(n, 1)
Counters(n) == IF NextPow2(n) < 2 THEN 2 ELSE NextPow2(n)
WidthBytes(n) == Counters(n) \div 2
MaskOf(n) == Counters(n) - 1

---------------------------------------------------------------------------
\* counter index of hash h in row r, as the code computes it
Idx(h, r) == (h.lo ^^ seeds[r]) & mask
ByteOf(i) == i \div 2
IsOdd(i) == i % 2 = 1

\* nibble views of a byte
LoNib(b) == b % 16
HiNib(b) == b \div 16
Nib(b, odd) == IF odd THEN HiNib(b) ELSE LoNib(b)

\* CountMinRow::get
RowGet(row, i) == Nib(row[ByteOf(i)], IsOdd(i))

\* CountMinRow::increment -- the code's arithmetic: v = (byte >> shift) & 0x0f; if v < 15 { byte += 1 << shift }
RowInc(row, i) ==
    LET b == row[ByteOf(i)]
        shift == IF IsOdd(i) THEN 4 ELSE 0
        v == shiftR(b, shift) & 15
    IN IF v < 15 THEN [row EXCEPT ![ByteOf(i)] = b + 2 ^ shift] ELSE row

\* CountMinRow::reset -- (byte >> 1) & 0x77
RowReset(row) == [j \in DOMAIN row |-> shiftR(row[j], 1) & 119]

RowClear(row) == [j \in DOMAIN row |-> 0]

\* CountMinSketch::estimate / increment / reset / clear
CmEstimate(h) ==
    LET vals == { RowGet(rows[r], Idx(h, r)) : r \in 1 .. Depth }
    IN CHOOSE m \in vals : \A x \in vals : m <= x

CmInc(rs, h) == [r \in 1 .. Depth |-> RowInc(rs[r], Idx(h, r))]
CmReset(rs) == [r \in 1 .. Depth |-> RowReset(rs[r])]
CmClear(rs) == [r \in 1 .. Depth |-> RowClear(rs[r])]

DoorHas(d, h) == Contains(d, h.hi, h.dlo, dLocs, dE)
DoorAdd(d, h) == Add(d, h.hi, h.dlo, dLocs, dE)

\* TinyLFU::estimate
Estimate(h) == CmEstimate(h) + (IF DoorHas(door, h) THEN 1 ELSE 0)

---------------------------------------------------------------------------
\* actions

\* TinyLFU::new(n) with given seeds and doorkeeper dimensions
New(n, sd, de, dlocs, hashIds) ==
    /\ width' = WidthBytes(n)
    /\ mask' = MaskOf(n)
    /\ rows' = [r \in 1 .. Depth |-> [j \in 0 .. WidthBytes(n) - 1 |-> 0]]
    /\ seeds' = sd
    /\ door' = {}
    /\ dE' = de
    /\ dLocs' = dlocs
    /\ w' = 0
    /\ samples' = n
    /\ rec' = [i \in hashIds |-> 0]
    /\ out' = <<"new", n>>

\* TinyLFU::increment: doorkeeper first, then counters; then try_reset
Increment(h) ==
    LET inDoor == DoorHas(door, h)
        door1 == IF inDoor THEN door ELSE DoorAdd(door, h)
        rows1 == IF inDoor THEN CmInc(rows, h) ELSE rows
        doReset == w + 1 >= samples
    IN /\ door' = IF doReset THEN {} ELSE door1
       /\ rows' = IF doReset THEN CmReset(rows1) ELSE rows1
       /\ w' = IF doReset THEN 0 ELSE w + 1
       /\ rec' = IF doReset THEN [i \in DOMAIN rec |-> 0]
                            ELSE [rec EXCEPT ![h.id] = @ + 1]
       /\ out' = <<"inc", h.id, doReset>>
       /\ UNCHANGED <<seeds, width, mask, dE, dLocs, samples>>

DoEstimate(h) ==
    /\ out' = <<"est", h.id, Estimate(h)>>
    /\ UNCHANGED <<rows, seeds, width, mask, door, dE, dLocs, w, samples, rec>>

Clear ==
    /\ door' = {}
    /\ rows' = CmClear(rows)
    /\ w' = 0
    /\ rec' = [i \in DOMAIN rec |-> 0]
    /\ out' = <<"clear">>
    /\ UNCHANGED <<seeds, width, mask, dE, dLocs, samples>>

---------------------------------------------------------------------------
\* properties (C13)

Min(a, b) == IF a < b THEN a ELSE b

\* every byte is a byte, every index addresses an existing byte (no panic)
RowsWellFormed ==
    /\ width >= 1
    /\ \A r \in 1 .. Depth : DOMAIN rows[r] = 0 .. width - 1
    /\ \A r \in 1 .. Depth : \A j \in 0 .. width - 1 : rows[r][j] \in 0 .. 255
IndexInRange(hs) == \A h \in hs : \A r \in 1 .. Depth : ByteOf(Idx(h, r)) \in 0 .. width - 1

\* never lower than the number of records since the last reset, saturating at 15 (+1 doorkeeper)
NeverUndercount(hs) == \A h \in hs : Estimate(h) >= Min(rec[h.id], 16)

\* nothing recorded since a reset/clear on a fresh estimator => estimate 0 is not required after
\* a halving reset (counters keep half); it is required when everything is zero:
FreshZero(hs) ==
    (out[1] \in {"new", "clear"}) => \A h \in hs : Estimate(h) = 0

WBound == w < samples \/ samples = 0

\* action properties, evaluated as invariants of the pair (previous counters, out) by the
\* _Step operators below, used by the MC module as [][...]_svars
NoSpill(hs) ==   \* an increment without reset changes only the addressed nibbles, by at most +1
    \A h \in hs :
        (out' = <<"inc", h.id, FALSE>>) =>
            \A r \in 1 .. Depth : \A j \in 0 .. width - 1 : \A odd \in BOOLEAN :
                LET old == Nib(rows[r][j], odd)
                    new == Nib(rows'[r][j], odd)
                    addressed == DoorHas(door, h) /\ ByteOf(Idx(h, r)) = j /\ IsOdd(Idx(h, r)) = odd
                IN IF addressed THEN new = Min(old + 1, 15) ELSE new = old

HalvingOnReset(hs) ==   \* the step on which w reaches samples halves every counter and empties the doorkeeper
    \A h \in hs :
        (out' = <<"inc", h.id, TRUE>>) =>
            /\ door' = {}
            /\ w' = 0
            /\ \A r \in 1 .. Depth : \A j \in 0 .. width - 1 : \A odd \in BOOLEAN :
                LET afterInc == IF DoorHas(door, h) /\ ByteOf(Idx(h, r)) = j /\ IsOdd(Idx(h, r)) = odd
                                THEN Min(Nib(rows[r][j], odd) + 1, 15)
                                ELSE Nib(rows[r][j], odd)
                IN Nib(rows'[r][j], odd) = afterInc \div 2

ResetExactlyAtSamples(hs) ==
    \A h \in hs : \A b \in BOOLEAN :
        (out' = <<"inc", h.id, b>>) => (b <=> (w + 1 >= samples))

ClearZeroes == (out' = <<"clear">>) =>
    /\ door' = {} /\ w' = 0
    /\ \A r \in 1 .. Depth : \A j \in 0 .. width - 1 : rows'[r][j] = 0
=============================================================================
