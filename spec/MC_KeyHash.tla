----------------------------- MODULE MC_KeyHash -----------------------------
(* Exhaustive check of the limb arithmetic of KeyHash.tla on a scaled-down word (limbs of 2/2/3
   bits would need other constants; instead: Neg is an involution on non-zero values and maps
   magnitude 1 to all-ones, checked over a grid of limb values). *)
EXTENDS KeyHash
VARIABLE x
Grid == { <<a, b, c>> : a \in {0, 1, L1 - 1}, b \in {0, 1, L1 - 1}, c \in {0, 1, 2, L3 - 1} }
Init == x \in Grid
Next == UNCHANGED x
Spec == Init /\ [][Next]_x
Involution == (x # Zero) => (IsLimbs(Neg(x)) /\ (Neg(x) # Zero => Neg(Neg(x)) = x))
MinusOne == Neg(<<0, 0, 1>>) = <<L1 - 1, L1 - 1, L3 - 1>>
Injective == \A y \in Grid : (x # Zero /\ y # Zero /\ Neg(x) = Neg(y)) => x = y
=============================================================================
