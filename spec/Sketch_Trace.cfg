SPECIFICATION TSpec
CONSTANTS
  Depth = 4
INVARIANTS TInvWellFormed TInvIndex TInvNeverUndercount TInvFreshZero TInvWBound
PROPERTIES TPropNoSpill TPropHalving TPropResetAt TPropClear
POSTCONDITION Accepted
CHECK_DEADLOCK FALSE
