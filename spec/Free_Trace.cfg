SPECIFICATION Spec
CONSTANTS
  SecUnits = 1000
INVARIANTS FIndex FClearLoad FQuiesce FForeign FChain FHammer FUsedIsSum FBounded FAgree FLen FIndexExact FReclaimed FConservation FNeverTwice FMetrics FWorkersGone FOpsComplete FEstimates
POSTCONDITION Accepted
CHECK_DEADLOCK FALSE
