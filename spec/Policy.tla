------------------------------- MODULE Policy -------------------------------
(***************************************************************************)
(* Admission / eviction policy (src/policy.rs: LFUPolicy::add / update /   *)
(* remove / clear / update_max_cost over SampledLFU + TinyLFU estimates).  *)
(*                                                                         *)
(* policy.add runs under one mutex; its eviction loop is modelled ROUND BY *)
(* ROUND (fill the sample, pick the least popular, reject or evict,        *)
(* recompute room) so that the per-round statements of C07 are checkable.  *)
(* Popularity is abstract here: est[k] is whatever TinyLFU::estimate(k)    *)
(* returns (refined in Sketch.tla); the model checker tries all values.    *)
(***************************************************************************)
EXTENDS Integers, Sequences, FiniteSets, TLC

CONSTANTS Keys,       \* index hashes
          Samples,    \* eviction sample size (5 in the code)
          Nil

VARIABLES costs,      \* [Keys -> Int \cup {Nil}]   SampledLFU.key_costs
          used,       \* SampledLFU.used
          maxCost,    \* SampledLFU.max_cost (atomic)
          est,        \* [Keys -> Nat]  TinyLFU estimates
          slack,      \* ghost: cost added by in-place updates / max lowered, since the last admission
          ev          \* ghost: in-flight add [k, cost, sample, victims, phase] or Nil; last result

pvars == <<costs, used, maxCost, est, slack, ev>>

Residents(c) == { k \in Keys : c[k] # Nil }
RECURSIVE SumOver(_, _)
SumOver(c, S) == IF S = {} THEN 0 ELSE LET k == CHOOSE x \in S : TRUE IN c[k] + SumOver(c, S \ {k})
Sum(c) == SumOver(c, Residents(c))
Max2(a, b) == IF a > b THEN a ELSE b
Min2(a, b) == IF a < b THEN a ELSE b
Room(c, u, m, cost) == m - (u + cost)

---------------------------------------------------------------------------
\* The rule of one eviction round, as predicates over explicit values so that the
\* model checker (choosing) and the trace validator (checking logged values) share it.

\* sample: sequence of <<key, cost>>; prevLen: entries kept from the previous round
\* "sampled (five, or all if fewer)": the refill tops the sample up from the current residents
\* (each drawn at most once per refill).  The code walks the map from its start on every refill,
\* so a resident already kept from the previous round may be drawn again: the sample is a bag, and
\* a kept duplicate of a key evicted in an earlier round of the same add is a STALE entry (no
\* longer resident).  Stale entries are modelled as they are (see GhostRound below).
FillOK(c, sample, prevLen) ==
    /\ Len(sample) = Min2(Samples, prevLen + Cardinality(Residents(c)))
    /\ \A i \in (prevLen + 1) .. Len(sample) : sample[i][1] \in Residents(c) /\ sample[i][2] = c[sample[i][1]]
    /\ \A i, j \in (prevLen + 1) .. Len(sample) : i # j => sample[i][1] # sample[j][1]

MinHits(sample, e) ==
    LET hs == { e[sample[i][1]] : i \in 1 .. Len(sample) }
    IN CHOOSE m \in hs : \A x \in hs : m <= x

\* the victim is a least popular candidate of the sample
VictimOK(sample, e, v) ==
    /\ \E i \in 1 .. Len(sample) : sample[i][1] = v
    /\ e[v] = MinHits(sample, e)

\* the newcomer is rejected exactly when strictly less popular than the least popular candidate
Rejects(sample, e, incHits) == incHits < MinHits(sample, e)

---------------------------------------------------------------------------
\* actions

Idle == IF ev = Nil THEN TRUE ELSE ev.phase = "done"

\* cannot add an item bigger than the entire cache
AddOversize(k, cost) ==
    /\ Idle /\ cost > maxCost
    /\ ev' = [phase |-> "done", k |-> k, cost |-> cost, added |-> FALSE, victims |-> <<>>, path |-> "oversize"]
    /\ UNCHANGED <<costs, used, maxCost, est, slack>>

\* already charged: not an addition; the item is not going to be stored, the charge stays
AddPresent(k, cost) ==
    /\ Idle /\ cost <= maxCost /\ costs[k] # Nil
    /\ ev' = [phase |-> "done", k |-> k, cost |-> cost, added |-> FALSE, victims |-> <<>>, path |-> "present"]
    /\ UNCHANGED <<costs, used, slack, maxCost, est>>

\* enough room: admitted, nothing evicted
AddRoom(k, cost) ==
    /\ Idle /\ cost <= maxCost /\ costs[k] = Nil
    /\ Room(costs, used, maxCost, cost) >= 0
    /\ costs' = [costs EXCEPT ![k] = cost]
    /\ used' = used + cost
    /\ slack' = 0
    /\ ev' = [phase |-> "done", k |-> k, cost |-> cost, added |-> TRUE, victims |-> <<>>, path |-> "room"]
    /\ UNCHANGED <<maxCost, est>>

\* not enough room: enter the eviction loop
AddBegin(k, cost) ==
    /\ Idle /\ cost <= maxCost /\ costs[k] = Nil
    /\ Room(costs, used, maxCost, cost) < 0
    /\ ev' = [phase |-> "round", k |-> k, cost |-> cost, sample |-> <<>>, victims |-> <<>>]
    /\ UNCHANGED <<costs, used, maxCost, est, slack>>

\* one round: refill, find the minimum, reject or evict
Round(sample, v) ==
    /\ ev # Nil /\ ev.phase = "round"
    /\ FillOK(costs, sample, Len(ev.sample))
    /\ \A i \in 1 .. Len(ev.sample) : sample[i] = ev.sample[i]
    /\ IF Rejects(sample, est, est[ev.k])
       THEN /\ ev' = [phase |-> "done", k |-> ev.k, cost |-> ev.cost, added |-> FALSE,
                      victims |-> ev.victims, path |-> "rejected"]
            /\ UNCHANGED <<costs, used, maxCost, est, slack>>
       ELSE /\ VictimOK(sample, est, v)
            /\ LET ghost == costs[v] = Nil      \* stale duplicate of an earlier victim: nothing is released
                   vcost == (CHOOSE p \in { sample[j] : j \in 1 .. Len(sample) } : p[1] = v)[2]
                   c1 == [costs EXCEPT ![v] = Nil]
                   u1 == IF ghost THEN used ELSE used - costs[v]
                   \* the victim's slot is overwritten by the last entry, the last entry dropped
                   i == CHOOSE j \in 1 .. Len(sample) : sample[j][1] = v
                   s1 == SubSeq([sample EXCEPT ![i] = sample[Len(sample)]], 1, Len(sample) - 1)
                   vs == Append(ev.victims, <<v, vcost>>)
                   done == Room(c1, u1, maxCost, ev.cost) >= 0
               IN /\ costs' = IF done THEN [c1 EXCEPT ![ev.k] = ev.cost] ELSE c1
                  /\ used' = IF done THEN u1 + ev.cost ELSE u1
                  /\ slack' = IF done THEN 0 ELSE Max2(0, slack - (used - u1))
                  /\ ev' = IF done
                           THEN [phase |-> "done", k |-> ev.k, cost |-> ev.cost, added |-> TRUE,
                                 victims |-> vs, path |-> "evicted"]
                           ELSE [ev EXCEPT !.sample = s1, !.victims = vs]
            /\ UNCHANGED <<maxCost, est>>

Update(k, cost) ==
    /\ Idle
    /\ IF costs[k] = Nil
       THEN UNCHANGED <<costs, used, slack>>
       ELSE /\ costs' = [costs EXCEPT ![k] = cost]
            /\ used' = used + cost - costs[k]
            /\ slack' = Max2(0, slack + (cost - costs[k]))
    /\ ev' = Nil
    /\ UNCHANGED <<maxCost, est>>

Remove(k) ==
    /\ Idle
    /\ IF costs[k] = Nil
       THEN UNCHANGED <<costs, used, slack>>
       ELSE /\ costs' = [costs EXCEPT ![k] = Nil]
            /\ used' = used - costs[k]
            /\ slack' = Max2(0, slack - costs[k])
    /\ ev' = Nil
    /\ UNCHANGED <<maxCost, est>>

Clear ==
    /\ Idle
    /\ costs' = [k \in Keys |-> Nil] /\ used' = 0 /\ slack' = 0
    /\ est' = [k \in Keys |-> 0]
    /\ ev' = Nil
    /\ UNCHANGED maxCost

SetMax(m) ==
    /\ Idle
    /\ maxCost' = m
    /\ slack' = slack + Max2(0, maxCost - m)
    /\ ev' = Nil
    /\ UNCHANGED <<costs, used, est>>

\* popularity changes (lookups recorded by the policy worker)
Bump(k, h) ==
    /\ Idle
    /\ est' = [est EXCEPT ![k] = h]
    /\ UNCHANGED <<costs, used, maxCost, slack, ev>>

---------------------------------------------------------------------------
\* properties

\* C01: the charged total always equals the sum of the per-entry charges
UsedIsSum == used = Sum(costs)

\* C01: never above max_cost except by what updates / a lowered max have added since the last admission
Bounded == (ev = Nil \/ ev.phase = "done") => (used = 0 \/ used <= maxCost + slack)

\* C01: every admission of a new key re-establishes total <= max_cost; oversize never admitted
AdmissionBound ==
    (ev # Nil /\ ev.phase = "done" /\ ev.added) => (used <= maxCost /\ ev.cost <= maxCost /\ costs[ev.k] = ev.cost)

\* C07: when there is room, admitted and nothing evicted
RoomMeansNoVictims ==
    (ev # Nil /\ ev.phase = "done" /\ ev.path = "room") => (ev.added /\ ev.victims = <<>>)

\* C07: eviction only while room is still lacking (a round starts only with room < 0)
RoundOnlyWhenLacking ==
    (ev # Nil /\ ev.phase = "round") => Room(costs, used, maxCost, ev.cost) < 0

\* C07: victims are gone from the policy, and none was more popular than the newcomer
VictimsGone ==
    (ev # Nil /\ ev.phase \in {"round", "done"}) =>
        \A i \in 1 .. Len(ev.victims) : costs[ev.victims[i][1]] = Nil \/ ev.victims[i][1] = ev.k
VictimsNoMorePopular ==
    (ev # Nil /\ ev.phase \in {"round", "done"}) =>
        \A i \in 1 .. Len(ev.victims) : est[ev.victims[i][1]] <= est[ev.k]

\* a rejected newcomer is not charged (an oversize add changes nothing at all: see AddOversize)
NotAddedNotCharged ==
    (ev # Nil /\ ev.phase = "done" /\ ~ev.added /\ ev.path = "rejected") => costs[ev.k] = Nil
=============================================================================
