SPECIFICATION Spec
CONSTANTS
  E = 3
  LOCS = 1
  Hashes <- EightHashes
INVARIANTS TypeOK NoFalseNegative ResetEmpties BitsAccounted BitBound CoAConsistent FalsePositiveOnlyByCollision
CHECK_DEADLOCK FALSE
