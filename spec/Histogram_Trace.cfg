SPECIFICATION TSpec
INVARIANTS CountIsSum MaxSeen
POSTCONDITION Accepted
CHECK_DEADLOCK FALSE
