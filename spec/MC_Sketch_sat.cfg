SPECIFICATION MCSpec
CONSTANTS
  Depth = 2
  NumCountersSet = {32}
  MaxOps = 19
INVARIANTS InvWellFormed InvIndex InvNeverUndercount InvFreshZero InvWBound
PROPERTIES PropNoSpill PropHalving PropResetAt PropClear
CHECK_DEADLOCK FALSE
