---------------------------- MODULE Locks_Trace ----------------------------
(***************************************************************************)
(* Lock events recorded by the traced locks of hooks H9 (the crate's       *)
(* RwLock / Mutex replaced, under the verification cfg, by wrappers that   *)
(* log every acquisition with the set of locks the thread already holds,   *)
(* and every release), attached to the recorded step during which they     *)
(* happened (field `locks` of the events of a cache trace).                *)
(*                                                                         *)
(* Checked on every recorded acquisition: the discipline of Locks.tla --   *)
(* under which TLC shows the critical sections deadlock-free -- and that   *)
(* a step gives back what it took (no yield point inside a critical       *)
(* section, no guard leaked).  The programs themselves are fed to          *)
(* MC_Locks_observed.cfg by the driver.                                    *)
(***************************************************************************)
EXTENDS Integers, Sequences, FiniteSets, Json, IOUtils, TLC

VARIABLES l
Rec == ndJsonDeserialize(IOEnv.TRACE)
Ev == Rec[l]

Init == l = 1
Next == l <= Len(Rec) /\ l' = l + 1
Spec == Init /\ [][Next]_l

HasLocks == l <= Len(Rec) /\ "locks" \in DOMAIN Ev
Range(s) == { s[i] : i \in 1 .. Len(s) }

\* role of a wanted lock relative to what the thread holds (the roles of Locks.tla)
RoleOf(lk, held) ==
    IF \E h \in Range(held) : h.id = lk.id THEN "same"
    ELSE IF lk.c = "shard" THEN (IF \E h \in Range(held) : h.c = "shard" THEN "s2" ELSE "s1")
    ELSE lk.c

\* Locks!Allowed on recorded data
TAllowed(lk, held) ==
    \/ held = <<>>
    \/ Len(held) = 1 /\ held[1].c = "shard" /\ held[1].id # lk.id /\ lk.c = "em"

TDiscipline == HasLocks => \A j \in 1 .. Len(Ev.locks) : Ev.locks[j].k = "want" => TAllowed(Ev.locks[j], Ev.locks[j].held)

\* per thread, every step releases what it acquired
\* ("got": a try_read / try_write / try_lock that succeeded -- it cannot wait, so the discipline does not apply to it, but
\* it has to be given back like any other)
Count(t, k) == Cardinality({ j \in 1 .. Len(Ev.locks) : Ev.locks[j].t = t /\ Ev.locks[j].k = k })
\* (free-running parallel clients: the records are de-duplicated, the harness reports the two totals instead)
TBalanced == IF HasLocks /\ "wants" \in DOMAIN Ev THEN Ev.wants = Ev.rels ELSE HasLocks => \A t \in { Ev.locks[j].t : j \in 1 .. Len(Ev.locks) } : Count(t, "want") + Count(t, "got") = Count(t, "rel")

\* only the four lock classes exist
TClasses == HasLocks => \A j \in 1 .. Len(Ev.locks) : Ev.locks[j].c \in {"shard", "em", "policy", "ring"}

Accepted ==
    IF TLCGet("stats").diameter - 1 = Len(Rec) THEN TRUE
    ELSE /\ PrintT(<<"TRACE-REJECTED at line", TLCGet("stats").diameter>>)
         /\ FALSE
=============================================================================
