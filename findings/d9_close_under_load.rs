//! D9 (repaired by /repo commit b3acf23): close() -- and the processor -- never got out of clear()'s drain loop while
//! other threads kept inserting.  Public API only; place as tests/d9.rs in a checkout of the commit BEFORE the fix
//! (221b96a) and run `cargo test --offline --test d9 -- --nocapture`: with an on_evict callback that takes 2 us and 4
//! inserting threads close() does not return within 10 s (6 of 6 runs); after the fix it returns in ~0.2 s.
use std::sync::atomic::{AtomicBool, AtomicU64, Ordering};
use std::sync::{mpsc, Arc};
use std::thread;
use std::time::{Duration, Instant};
use stretto::{Cache, CacheCallback, Item, TransparentKeyBuilder};

struct Cb(Arc<AtomicU64>);
impl CacheCallback for Cb {
    type Value = u64;
    fn on_exit(&self, _v: Option<u64>) {}
    fn on_evict(&self, _i: Item<u64>) {
        // a callback that does a little work (logging, metrics)
        let t0 = Instant::now();
        while t0.elapsed() < Duration::from_micros(2) {
            std::hint::spin_loop();
        }
        self.0.fetch_add(1, Ordering::Relaxed);
    }
}

fn run(producers: u64) -> Result<Duration, ()> {
    let n = Arc::new(AtomicU64::new(0));
    let stop = Arc::new(AtomicBool::new(false));
    let (tx, rx) = mpsc::channel();
    let c = Cache::builder(1000, 100)
        .set_key_builder(TransparentKeyBuilder::<u64>::default())
        .set_callback(Cb(n.clone()))
        .set_ignore_internal_cost(true)
        .finalize()
        .unwrap();
    for t in 0..producers {
        let c = c.clone();
        let stop = stop.clone();
        thread::spawn(move || {
            let mut i = t << 40;
            while !stop.load(Ordering::Relaxed) {
                c.insert(i, i, 1);
                i += 1;
            }
        });
    }
    thread::sleep(Duration::from_millis(100));
    let cl = c.clone();
    thread::spawn(move || {
        let r = cl.close();
        let _ = tx.send(r.is_ok());
    });
    let t1 = Instant::now();
    let r = rx.recv_timeout(Duration::from_secs(10));
    stop.store(true, Ordering::Relaxed);
    match r {
        Ok(_) => Ok(t1.elapsed()),
        Err(_) => Err(()),
    }
}

#[test]
fn close_returns_while_other_threads_insert() {
    for p in [4u64, 8] {
        for round in 0..3 {
            let r = run(p);
            eprintln!("producers={} round={} -> {:?}", p, round, r);
            assert!(r.is_ok(), "close() did not return within 10 s while {} threads were inserting", p);
        }
    }
}
