//! D13 (repaired by /repo commit 9288bd3): `Metrics` records a cost decrease as a two's-complement delta on the key's
//! stripe and then sums the stripes with a plain `+`: once one stripe is below zero (here: the counters are reset through
//! the public `cache.metrics.clear()` while a key stays charged; inside the library the same happens when `clear()` races
//! the processor, known finding D7) the getters panic in every build with overflow checks (any `cargo test` / debug build).
//! Place as tests/d13.rs in a checkout of the commit before the fix and run `cargo test --offline --test d13`.
use stretto::{Cache, TransparentKeyBuilder};

#[test]
fn cost_added_after_a_cost_decrease() {
    let c: Cache<u64, u64, TransparentKeyBuilder<u64>> = Cache::builder(1000, 100)
        .set_key_builder(TransparentKeyBuilder::default())
        .set_ignore_internal_cost(true)
        .set_metrics(true)
        .finalize()
        .unwrap();
    c.insert(1, 1, 5);
    c.wait().unwrap();
    c.metrics.clear(); // the application restarts its statistics
    c.insert(1, 2, 2); // key 1 becomes cheaper: -3 on its stripe
    c.insert(2, 2, 5); // another stripe: +5
    c.wait().unwrap();
    // 2^64 - 3 + 5 wraps to 2: the documented meaning of the counter (net cost added since the reset)
    assert_eq!(c.metrics.get_cost_added(), Some(2));
}
