//! D11 (repaired by /repo commit bacae02): a TTL of Duration::MAX -- which is what get_ttl() reports for an entry
//! WITHOUT a TTL, so `insert_with_ttl(k2, v, c, cache.get_ttl(&k1).unwrap())` produces it -- overflowed in
//! `Time::unix` ("overflow when adding durations"); for a new key that happens on the processor thread, which dies:
//! every later wait() blocks for ever, nothing is applied any more.  Public API only; place as tests/d11.rs in a
//! checkout of the commit before the fix (a122976) and run `cargo test --offline --test d11 -- --nocapture`.
use std::time::Duration;
use stretto::{Cache, TransparentKeyBuilder};

#[test]
fn ttl_copied_from_a_non_expiring_entry() {
    let c: Cache<u64, u64, TransparentKeyBuilder<u64>> = Cache::builder(1000, 100)
        .set_key_builder(TransparentKeyBuilder::default())
        .set_ignore_internal_cost(true)
        .finalize()
        .unwrap();
    c.insert(1, 1, 1);
    c.wait().unwrap();
    let ttl = c.get_ttl(&1).unwrap(); // Duration::MAX: "no expiry"
    c.insert_with_ttl(2, 2, 1, ttl); // a new key with that ttl: applied by the processor
    let (tx, rx) = std::sync::mpsc::channel();
    let c2 = c.clone();
    std::thread::spawn(move || {
        let _ = tx.send(c2.wait().is_ok());
    });
    let r = rx.recv_timeout(Duration::from_secs(5));
    assert!(r.is_ok(), "wait() never returned: the processor thread died");
    assert_eq!(c.get(&2).map(|v| *v.value()), Some(2));
}
