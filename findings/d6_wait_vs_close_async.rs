//! async twin of d6.rs: `cargo test --offline --features async --test d6a`
#![cfg(feature = "async")]
use std::time::Duration;
use stretto::{AsyncCache, TransparentKeyBuilder};

#[tokio::test(flavor = "multi_thread", worker_threads = 4)]
async fn wait_racing_close_returns_async() {
    for round in 0..200u64 {
        let c: AsyncCache<u64, u64, TransparentKeyBuilder<u64>> = AsyncCache::builder(100, 100)
            .set_key_builder(TransparentKeyBuilder::default())
            .set_ignore_internal_cost(true)
            .finalize(tokio::spawn)
            .unwrap();
        let mut hs = vec![];
        for t in 0..3u64 {
            let c = c.clone();
            hs.push(tokio::spawn(async move {
                for i in 0..50u64 {
                    c.insert(t * 100 + i, i, 1).await;
                    let _ = c.wait().await;
                }
            }));
        }
        tokio::time::sleep(Duration::from_micros(200 + (round % 7) * 150)).await;
        let _ = c.close().await;
        for h in hs {
            assert!(tokio::time::timeout(Duration::from_secs(5), h).await.is_ok(), "round {}: a wait() racing close() never returned", round);
        }
    }
}
