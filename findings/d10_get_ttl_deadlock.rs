//! D10: get_ttl takes a second read lock on the shard while the ValueRef of its first lookup is alive.
//! parking_lot's RwLock is fair: once a writer waits, new readers queue behind it -- so a writer arriving between the
//! two read locks deadlocks with the reader for ever (and with it every later user of that shard, the processor included).
use std::sync::atomic::{AtomicBool, AtomicU64, Ordering};
use std::sync::Arc;
use std::thread;
use std::time::{Duration, Instant};
use stretto::{Cache, TransparentKeyBuilder};

#[test]
fn get_ttl_racing_writers_of_the_same_key_keeps_returning() {
    let c: Cache<u64, u64, TransparentKeyBuilder<u64>> = Cache::builder(1000, 100)
        .set_key_builder(TransparentKeyBuilder::default())
        .set_ignore_internal_cost(true)
        .finalize()
        .unwrap();
    c.insert_with_ttl(1, 1, 1, Duration::from_secs(3600));
    c.wait().unwrap();
    let stop = Arc::new(AtomicBool::new(false));
    let progress: Vec<Arc<AtomicU64>> = (0..4).map(|_| Arc::new(AtomicU64::new(0))).collect();
    let mut hs = vec![];
    for t in 0..4usize {
        let (c, stop, p) = (c.clone(), stop.clone(), progress[t].clone());
        hs.push(thread::spawn(move || {
            let mut i = 0u64;
            while !stop.load(Ordering::Relaxed) {
                if t < 2 {
                    let _ = c.get_ttl(&1);
                } else {
                    // an update of the resident key: takes the shard's write lock on this thread
                    i += 1;
                    c.insert_with_ttl(1, i, 1, Duration::from_secs(3600));
                }
                p.fetch_add(1, Ordering::Relaxed);
            }
        }));
    }
    let t0 = Instant::now();
    let mut last: Vec<u64> = progress.iter().map(|p| p.load(Ordering::Relaxed)).collect();
    let mut stuck_for = 0;
    while t0.elapsed() < Duration::from_secs(30) {
        thread::sleep(Duration::from_millis(500));
        let now: Vec<u64> = progress.iter().map(|p| p.load(Ordering::Relaxed)).collect();
        if now == last {
            stuck_for += 1;
            if stuck_for >= 6 {
                panic!("no thread made progress for 3 s after {:?} ({:?} operations each): deadlock", t0.elapsed(), now);
            }
        } else {
            stuck_for = 0;
        }
        last = now;
    }
    stop.store(true, Ordering::Relaxed);
    for h in hs {
        h.join().unwrap();
    }
    eprintln!("30 s without a deadlock, operations per thread: {:?}", last);
}
