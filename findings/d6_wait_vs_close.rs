//! D6 (repaired): wait() racing close() -- the processor takes the stop signal while the Wait marker is still buffered;
//! the marker was destroyed with the channel without releasing the waiter, which blocked for ever.
//! Public API; place as tests/d6.rs in a checkout of the commit before the fix, `cargo test --offline --test d6`.
use std::sync::mpsc;
use std::thread;
use std::time::Duration;
use stretto::{Cache, TransparentKeyBuilder};

#[test]
fn wait_racing_close_returns() {
    for round in 0..300 {
        let c: Cache<u64, u64, TransparentKeyBuilder<u64>> = Cache::builder(100, 100)
            .set_key_builder(TransparentKeyBuilder::default())
            .set_ignore_internal_cost(true)
            .finalize()
            .unwrap();
        let (tx, rx) = mpsc::channel();
        let mut hs = vec![];
        for t in 0..3u64 {
            let (c, tx) = (c.clone(), tx.clone());
            hs.push(thread::spawn(move || {
                for i in 0..50u64 {
                    c.insert(t * 100 + i, i, 1);
                    let _ = c.wait();
                }
                let _ = tx.send(());
            }));
        }
        thread::sleep(Duration::from_micros(200 + (round % 7) * 150));
        let _ = c.close();
        for _ in 0..3 {
            assert!(rx.recv_timeout(Duration::from_secs(5)).is_ok(), "round {}: a wait() racing close() never returned", round);
        }
        for h in hs {
            h.join().unwrap();
        }
    }
}
