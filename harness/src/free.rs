//! `vh free`: FREE-RUNNING runs -- the real cache with its real background loops (sync select!
//! loop + crossbeam ticker; async tasks + async-io timer on a thread-per-task, pooled or
//! single-threaded executor).  One client, `wait()` between operations, virtual clock for TTLs.
//! Records quiescent snapshots that Free_Trace.tla checks against the state predicates of
//! Cache.tla (C05 bounded reclaim delay in ticks, C06, C08, C12 worker termination, C17, C19
//! executors, C20 tiny cleanup intervals).
use crate::cache::{bo, drain_callbacks, post, ACache, AnyCache, CosterKind, HCoster, HValidator, SCache, TabKeys, ValKind, MS, V};
use crate::util::{Opts, Trace};
use rand::rngs::StdRng;
use rand::{Rng, SeedableRng};
use serde_json::{json, Value};
use std::sync::atomic::{AtomicUsize, Ordering};
use std::sync::mpsc;
use std::time::{Duration, Instant};
use stretto::verif;
use stretto::{AsyncCacheBuilder, CacheBuilder};

static TASKS_ALIVE: AtomicUsize = AtomicUsize::new(0);

fn threads_now() -> usize {
    std::fs::read_dir("/proc/self/task").map(|d| d.count()).unwrap_or(0)
}

struct Alive;
impl Drop for Alive {
    fn drop(&mut self) {
        TASKS_ALIVE.fetch_sub(1, Ordering::SeqCst);
    }
}

type BoxFut = futures::future::BoxFuture<'static, ()>;

fn wrap(f: BoxFut) -> BoxFut {
    TASKS_ALIVE.fetch_add(1, Ordering::SeqCst);
    Box::pin(async move {
        let _a = Alive;
        f.await
    })
}

thread_local! {
    static EXEC: std::cell::RefCell<String> = const { std::cell::RefCell::new(String::new()) };
}
static LOCAL_TX: parking_lot::Mutex<Option<mpsc::Sender<BoxFut>>> = parking_lot::Mutex::new(None);
static POOL: parking_lot::Mutex<Option<futures::executor::ThreadPool>> = parking_lot::Mutex::new(None);

fn spawn_thread(f: BoxFut) {
    let f = wrap(f);
    std::thread::spawn(move || futures::executor::block_on(f));
}
fn spawn_pool(f: BoxFut) {
    let f = wrap(f);
    let mut g = POOL.lock();
    if g.is_none() {
        *g = Some(futures::executor::ThreadPool::builder().pool_size(3).create().expect("thread pool"));
    }
    g.as_ref().unwrap().spawn_ok(f);
}
/// every task on ONE thread (a LocalPool fed through a channel): the two background tasks can
/// only make progress by yielding to each other
fn spawn_local(f: BoxFut) {
    let f = wrap(f);
    let mut g = LOCAL_TX.lock();
    if g.is_none() {
        let (tx, rx) = mpsc::channel::<BoxFut>();
        std::thread::spawn(move || {
            use futures::task::LocalSpawnExt;
            let mut pool = futures::executor::LocalPool::new();
            let sp = pool.spawner();
            loop {
                while let Ok(f) = rx.try_recv() {
                    let _ = sp.spawn_local(f);
                }
                pool.run_until_stalled();
                std::thread::sleep(Duration::from_micros(300));
            }
        });
        *g = Some(tx);
    }
    let _ = g.as_ref().unwrap().send(f);
}

fn build(flavor: &str, exec: &str, max_cost: i64, buf: usize, tick: Duration) -> AnyCache {
    build_bi(flavor, exec, max_cost, buf, tick, 64, 1000, ValKind::Always, max_cost as u64)
}

#[allow(clippy::too_many_arguments)]
fn build_bi(flavor: &str, exec: &str, max_cost: i64, buf: usize, tick: Duration, bi: usize, nc: usize, val: ValKind, order: u64) -> AnyCache {
    if flavor == "sync" {
        let c: SCache = crate::build_in_order!(CacheBuilder::new_with_key_builder(nc, max_cost, TabKeys), order,
            HCoster(CosterKind::Const2), HValidator(val), buf, bi, true, true, tick; finalize())
        .expect("finalize");
        AnyCache::Sync(c)
    } else {
        let c: ACache = match exec {
            "pool" => crate::build_in_order!(AsyncCacheBuilder::new_with_key_builder(nc, max_cost, TabKeys), order,
                HCoster(CosterKind::Const2), HValidator(val), buf, bi, true, true, tick; finalize(spawn_pool)),
            "local" => crate::build_in_order!(AsyncCacheBuilder::new_with_key_builder(nc, max_cost, TabKeys), order,
                HCoster(CosterKind::Const2), HValidator(val), buf, bi, true, true, tick; finalize(spawn_local)),
            _ => crate::build_in_order!(AsyncCacheBuilder::new_with_key_builder(nc, max_cost, TabKeys), order,
                HCoster(CosterKind::Const2), HValidator(val), buf, bi, true, true, tick; finalize(spawn_thread)),
        }
        .expect("finalize");
        AnyCache::Async(c)
    }
}

/// entries of the store whose bucket is due at `now_ms` (what a tick that has fired must have swept)
fn due_left(api: &Api, now_ms: u64) -> bool {
    let p = post(&api.0);
    p["store"].as_array().map(|a| {
        a.iter().any(|e| {
            let (d, at) = (e["d"].as_u64().unwrap_or(0), e["at"].as_u64().unwrap_or(0));
            d > 0 && d != crate::cache::HUGE_MS && (at + d) / 1000 + 1 <= now_ms / 1000
        })
    }).unwrap_or(false)
}

struct Api(AnyCache);
impl Api {
    fn insert(&self, k: u64, v: u64, cost: i64, ttl: u64) -> bool {
        let val = V { id: v, rev: 0 };
        let r = match &self.0 {
            AnyCache::Sync(c) => {
                if ttl > 0 { c.try_insert_with_ttl(k, val, cost, Duration::from_millis(ttl)) } else { c.try_insert(k, val, cost) }
            }
            AnyCache::Async(c) => {
                if ttl > 0 { bo(c.try_insert_with_ttl(k, val, cost, Duration::from_millis(ttl))) } else { bo(c.try_insert(k, val, cost)) }
            }
        };
        r.unwrap_or(false)
    }
    fn insert_only(&self, k: u64, v: u64, cost: i64) -> bool {
        let val = V { id: v, rev: 0 };
        match &self.0 {
            AnyCache::Sync(c) => c.try_insert_if_present(k, val, cost),
            AnyCache::Async(c) => bo(c.try_insert_if_present(k, val, cost)),
        }
        .unwrap_or(false)
    }
    fn remove(&self, k: u64) -> bool {
        match &self.0 {
            AnyCache::Sync(c) => c.try_remove(&k).is_ok(),
            AnyCache::Async(c) => bo(c.try_remove(&k)).is_ok(),
        }
    }
    fn get(&self, k: u64) -> Option<u64> {
        match &self.0 {
            AnyCache::Sync(c) => c.get(&k).map(|r| r.value().id),
            AnyCache::Async(c) => bo(c.get(&k)).map(|r| r.value().id),
        }
    }
    /// another thread keeps a lookup guard (ValueRef) on key k alive for `ms` milliseconds; returns once it is held
    /// get_mut: the id of the value handed out (the guard is dropped at once)
    fn get_mut_id(&self, k: u64) -> Option<u64> {
        match &self.0 {
            AnyCache::Sync(c) => c.get_mut(&k).map(|r| r.value().id),
            AnyCache::Async(c) => bo(c.get_mut(&k)).map(|r| r.value().id),
        }
    }
    fn get_ttl(&self, k: u64) -> bool {
        match &self.0 {
            AnyCache::Sync(c) => c.get_ttl(&k).is_some(),
            AnyCache::Async(c) => c.get_ttl(&k).is_some(),
        }
    }
    fn hold_ref(&self, k: u64, ms: u64) -> Option<std::thread::JoinHandle<()>> {
        let (tx, rx) = mpsc::channel::<bool>();
        let c = self.0.clone();
        let h = std::thread::spawn(move || match c {
            AnyCache::Sync(c) => {
                let r = c.get(&k);
                let _ = tx.send(r.is_some());
                std::thread::sleep(Duration::from_millis(ms));
                drop(r);
            }
            AnyCache::Async(c) => {
                let r = bo(c.get(&k));
                let _ = tx.send(r.is_some());
                std::thread::sleep(Duration::from_millis(ms));
                drop(r);
            }
        });
        match rx.recv_timeout(Duration::from_secs(5)) {
            Ok(true) => Some(h),
            _ => {
                let _ = h.join();
                None
            }
        }
    }
    /// another thread keeps lookup guards on ALL the given keys alive for `ms` milliseconds; returns (handle, guards held)
    fn hold_refs(&self, ks: Vec<u64>, ms: u64) -> (std::thread::JoinHandle<()>, usize) {
        let (tx, rx) = mpsc::channel::<usize>();
        let c = self.0.clone();
        let h = std::thread::spawn(move || match c {
            AnyCache::Sync(c) => {
                let rs: Vec<_> = ks.iter().filter_map(|k| c.get(k)).collect();
                let _ = tx.send(rs.len());
                std::thread::sleep(Duration::from_millis(ms));
                drop(rs);
            }
            AnyCache::Async(c) => {
                let rs: Vec<_> = ks.iter().filter_map(|k| bo(c.get(k))).collect();
                let _ = tx.send(rs.len());
                std::thread::sleep(Duration::from_millis(ms));
                drop(rs);
            }
        });
        let n = rx.recv_timeout(Duration::from_secs(5)).unwrap_or(0);
        (h, n)
    }
    fn clear(&self) -> bool {
        match &self.0 {
            AnyCache::Sync(c) => c.clear().is_ok(),
            AnyCache::Async(c) => bo(c.clear()).is_ok(),
        }
    }
    /// wait() until it succeeds: a full insert buffer makes wait() return an error at once, without waiting for anything
    fn settle(&self) -> bool {
        let t0 = Instant::now();
        while t0.elapsed() < Duration::from_secs(10) {
            if self.wait() {
                return true;
            }
            std::thread::sleep(Duration::from_micros(300));
        }
        false
    }
    fn wait(&self) -> bool {
        match &self.0 {
            AnyCache::Sync(c) => c.wait().is_ok(),
            AnyCache::Async(c) => bo(c.wait()).is_ok(),
        }
    }
    fn close(&self) -> bool {
        match &self.0 {
            AnyCache::Sync(c) => c.close().is_ok(),
            AnyCache::Async(c) => bo(c.close()).is_ok(),
        }
    }
}

/// one instance, run on its own thread; events are sent to the main thread (which holds the watchdog)
#[allow(clippy::too_many_arguments)]
fn instance(tx: mpsc::Sender<Value>, seed: u64, flavor: String, exec: String, tick_ms: u64, tiny: bool, drop_only: bool, pclear: i32) {
    let mut rng = StdRng::seed_from_u64(seed);
    let start = 100_000 + rng.gen_range(0..1000u64);
    let mut now = start;
    verif::clock::set_virtual(now * MS);
    drain_callbacks();
    let tick = if tiny { Duration::from_nanos(rng.gen_range(1..200)) } else { Duration::from_millis(tick_ms) };
    let max_cost = rng.gen_range(6..14);
    let threads_before = threads_now();
    let tasks_before = TASKS_ALIVE.load(Ordering::SeqCst);
    let api = Api(build(&flavor, &exec, max_cost, 8, tick));
    let _ = tx.send(json!({"ev":"FInit","flavor":flavor,"exec":exec,"tick_ms":tick_ms,"tiny":tiny,"max":max_cost,"now":now}));
    let mut accepted: Vec<u64> = Vec::new();
    let mut cleared: Vec<u64> = Vec::new();
    let mut cbs: Vec<Value> = Vec::new();
    let mut lookups = 0u64;
    let mut next_val = 1u64;
    // the last one has an index of its own in the shard of key 2: a guard on key 2 also blocks the store half of its insert
    let keys = [2u64, 3, 4, 5, 6, 7, 8, crate::cache::SHARD_MATE];
    let mut snap = |api: &Api, now: u64, ticked: bool, due_now: u64, accepted: &Vec<u64>, cleared: &Vec<u64>, cbs: &mut Vec<Value>, lookups: u64, what: &str| {
        cbs.extend(drain_callbacks());
        let p = post(&api.0);
        let _ = tx.send(json!({"ev":"Snap","what":what,"now":now,"ticked":ticked,"due_now":due_now,"sequentialBelow":false,
            "store":p["store"],"em":p["em"],"costs":p["costs"],"used":p["used"],"max":p["max"],"len":p["len"],"met":p["met"],
            "accepted":accepted,"cleared":cleared,"cbs":cbs.clone(),"lookups":lookups}));
    };
    let steps = if drop_only { 6 } else if tiny { 12 } else { 36 };
    for _ in 0..steps {
        let r = rng.gen_range(0..100);
        let k = keys[rng.gen_range(0..keys.len())];
        let mut what = "op";
        let _ = tx.send(json!({"ev":"Op","completed":true,"begin":true}));
        if r < 30 {
            // sometimes another thread keeps a lookup guard on a resident key meanwhile: an eviction (or a sweep) that needs
            // that key's shard has to wait for the guard, not skip the removal
            let holder: Option<()> = None;
            let mut fresh: Vec<u64> = Vec::new();
            if !tiny && rng.gen_bool(0.5) {
                let p = post(&api.0);
                // keys that are NOT resident: their inserts are New items, applied by the processor (an insert of a resident
                // key would wait for the guard on the client's own thread and the guards would be gone afterwards)
                let resident: Vec<u64> = p["store"].as_array().unwrap().iter().map(|e| e["i"].as_u64().unwrap()).collect();
                fresh = keys.iter().copied().filter(|k| {
                    let idx = if *k == crate::cache::SHARD_MATE { 258 } else { crate::cache::KEYTAB[*k as usize].0 };
                    !resident.contains(&idx)
                }).collect();
                // every resident key: whichever the policy picks as victim, its shard is pinned (the lookups are counted: all of
                // the keys asked for, hit or miss)
                let ks: Vec<u64> = p["store"].as_array().unwrap().iter()
                    .filter_map(|e| crate::cache::KEYTAB.iter().position(|kt| kt.0 == e["i"].as_u64().unwrap()).map(|x| x as u64))
                    .collect();
                let _ = &ks;
            }
            if holder.is_some() {
                unreachable!();
            } else if !fresh.is_empty() {
                // The processor is parked inside on_reject of an oversize item; newcomers are queued behind it (their client
                // halves need the shard locks, so the guards come after); then another thread pins every resident key; then
                // the processor is let go: the victims it picks are pinned, and so is the shard of the shard-mate's own insert.
                crate::cache::GATE_CLOSED.store(true, Ordering::SeqCst);
                let v = next_val;
                next_val += 1;
                if api.insert(9, v, 1_000_000, 0) {
                    accepted.push(v);
                }
                std::thread::sleep(Duration::from_millis(2));
                // variant B (when key 2 is resident and its shard-mate is not): only the shard-mate is queued and only key 2 is
                // pinned -- the processor's own store insert of the newcomer is what meets the guard, not a victim's removal
                let p0 = post(&api.0);
                let key2_resident = p0["store"].as_array().unwrap().iter().any(|e| e["i"].as_u64() == Some(2));
                let only_mate = key2_resident && fresh.contains(&crate::cache::SHARD_MATE) && rng.gen_bool(0.6);
                if only_mate {
                    fresh = vec![crate::cache::SHARD_MATE];
                }
                for fk in fresh.iter() {
                    let v = next_val;
                    next_val += 1;
                    if api.insert(*fk, v, if only_mate { 1 } else { rng.gen_range(2..4) }, 0) {
                        accepted.push(v);
                    }
                }
                let p = post(&api.0);
                let ks: Vec<u64> = if only_mate {
                    vec![2]
                } else {
                    p["store"].as_array().unwrap().iter()
                        .filter_map(|e| crate::cache::KEYTAB.iter().position(|kt| kt.0 == e["i"].as_u64().unwrap()).map(|x| x as u64))
                        .collect()
                };
                lookups += ks.len() as u64;
                let (h, _n) = api.hold_refs(ks, 40);
                crate::cache::GATE_CLOSED.store(false, Ordering::SeqCst);
                let _ = h.join();
            } else {
                let v = next_val;
                next_val += 1;
                if api.insert(k, v, rng.gen_range(1..4), 0) {
                    accepted.push(v);
                }
            }
            what = "insert";
        } else if r < 60 {
            let v = next_val;
            next_val += 1;
            let ttl = [300u64, 700, 1000, 1500, 2500][rng.gen_range(0..5)];
            if api.insert(k, v, rng.gen_range(1..4), ttl) {
                accepted.push(v);
            }
            what = "insert_ttl";
        } else if r < 70 {
            api.remove(k);
            what = "remove";
        } else if r < 82 {
            api.get(k);
            lookups += 1;
            what = "get";
        } else if r < 82 + pclear && !tiny {
            // values resident now are dropped without callback
            api.settle();
            let p = post(&api.0);
            for e in p["store"].as_array().unwrap() {
                cleared.push(e["v"].as_u64().unwrap());
            }
            // sometimes another thread holds a lookup guard on a resident key while clear() runs:
            // clear() has to wait for it, not skip the shard
            let mut holder = None;
            if rng.gen_bool(0.6) {
                if let Some(e) = p["store"].as_array().unwrap().first() {
                    let idx = e["i"].as_u64().unwrap();
                    if let Some(k) = crate::cache::KEYTAB.iter().position(|kt| kt.0 == idx) {
                        holder = api.hold_ref(k as u64, 40);
                        if holder.is_some() {
                            lookups += 1;
                        }
                    }
                }
            }
            api.clear();
            if let Some(h) = holder {
                let _ = h.join();
            }
            lookups = 0;
            what = "clear";
            // operations issued straight after clear() returned: the loop may not have taken the clear signal yet
            if rng.gen_bool(0.6) {
                let v = next_val;
                next_val += 1;
                if api.insert(k, v, rng.gen_range(1..4), 0) {
                    accepted.push(v);
                }
                api.get(k);
                lookups += 1;
                what = "clear+ops";
            }
        } else {
            // the clock moves; then steady traffic for several tick periods of REAL time: the loop's
            // ticker must fire while items keep arriving
            let dt = [400u64, 999, 1000, 1001, 1700, 2600][rng.gen_range(0..6)];
            now += dt;
            verif::clock::set_virtual(now * MS);
            let due_now = now;
            let t0 = Instant::now();
            let period = if tiny { Duration::from_millis(5) } else { tick };
            // six periods; on a starved machine the ticker's thread may simply not have run yet: then up to 10 s of grace
            // (a tick that does not come at all still fails)
            while t0.elapsed() < period * 6 || (t0.elapsed() < Duration::from_secs(10) && due_left(&api, now)) {
                let v = next_val;
                next_val += 1;
                if api.insert(keys[0], v, 1, 3_600_000) {
                    accepted.push(v);
                }
                std::thread::sleep(period / 5);
            }
            api.settle();
            snap(&api, now, true, due_now, &accepted, &cleared, &mut cbs, lookups, "advance+traffic");
            continue;
        }
        api.settle();
        snap(&api, now, false, now, &accepted, &cleared, &mut cbs, lookups, what);
    }
    let _ = tx.send(json!({"ev":"Op","completed":true,"begin":true,"what":"close/drop"}));
    // close(): the workers must terminate although handles are still alive; drop: once the last handle is gone
    let mut keep: Option<Api> = None;
    let ev = if drop_only {
        drop(api);
        "Dropped"
    } else {
        api.close();
        keep = Some(api);
        "Closed"
    };
    // the workers terminate: threads of the sync cache, tasks of the async cache
    let t0 = Instant::now();
    let mut left;
    loop {
        left = if flavor == "sync" {
            threads_now().saturating_sub(threads_before)
        } else {
            TASKS_ALIVE.load(Ordering::SeqCst).saturating_sub(tasks_before)
        };
        if left == 0 || t0.elapsed() > Duration::from_secs(5) {
            break;
        }
        std::thread::sleep(Duration::from_millis(5));
    }
    drop(keep);
    let _ = tx.send(json!({"ev":ev,"workers_left":left}));
    let _ = tx.send(json!({"ev":"__done"}));
}

/// lookups racing writes: with buffer_items = 1 every lookup is its own batch, counted as kept or
/// dropped; once the policy worker has drained its queue the estimate of every key must reflect its
/// kept lookups (C15), whatever the cache processor was doing with the policy meanwhile
fn est_instance(tx: mpsc::Sender<Value>, seed: u64, flavor: String, exec: String) {
    let mut rng = StdRng::seed_from_u64(seed ^ 0xe57);
    verif::clock::set_virtual(100_000 * MS);
    drain_callbacks();
    let nc = 100_000;
    let api = Api(build_bi(&flavor, &exec, 1000, 64, Duration::from_secs(3600), 1, nc, ValKind::Always, seed));
    let _ = tx.send(json!({"ev":"FInit","flavor":flavor,"exec":exec,"kind":"estimates","nc":nc}));
    let keys = [2u64, 3, 4, 5, 6, 7, 8];
    let mut next_val = 1u64;
    for k in keys {
        api.insert(k, next_val, 1, 0);
        next_val += 1;
    }
    api.settle();
    for _round in 0..25 {
        api.clear();
        api.settle();
        for k in keys {
            api.insert(k, next_val, 1, 0);
            next_val += 1;
        }
        api.settle();
        let mut kept: std::collections::HashMap<u64, u64> = std::collections::HashMap::new();
        let mut total = 0u64;
        let kept_metric = |api: &Api| post(&api.0)["met"]["keepGets"].as_u64().unwrap_or(0);
        let mut last = kept_metric(&api);
        for _ in 0..70 {
            let k = keys[rng.gen_range(0..keys.len())];
            // a write first: the cache processor takes the policy mutex for it ...
            api.insert(keys[rng.gen_range(0..keys.len())], next_val, 1, 0);
            next_val += 1;
            // ... while this lookup's batch reaches the policy worker
            api.get(k);
            let now = kept_metric(&api);
            if now > last {
                *kept.entry(crate::cache::KEYTAB[k as usize].0).or_insert(0) += now - last;
                total += now - last;
            }
            last = now;
        }
        api.settle();
        // the policy worker drains its queue
        let t0 = Instant::now();
        while post(&api.0)["polq"].as_u64().unwrap_or(0) > 0 && t0.elapsed() < Duration::from_secs(3) {
            std::thread::sleep(Duration::from_millis(2));
        }
        std::thread::sleep(Duration::from_millis(5));
        let p = post(&api.0);
        let mut kv: Vec<(u64, u64)> = kept.into_iter().collect();
        kv.sort();
        let _ = tx.send(json!({"ev":"Est","kept":kv.iter().map(|(i, n)| json!([i, n])).collect::<Vec<_>>(),"est":p["est"],
            "total":total,"nc":nc,"polq":p["polq"]}));
    }
    api.close();
    let _ = tx.send(json!({"ev":"__done"}));
}

/// the builder's DEFAULTS for everything a user normally leaves alone (insert buffer size, buffer_items, cleanup interval of
/// 2 s, internal cost counted): entries whose TTL has elapsed are reclaimed within the bound with them too (C05), the
/// operations complete and the workers terminate (C20)
fn dflt_instance(tx: mpsc::Sender<Value>, seed: u64, flavor: String, exec: String) {
    let mut rng = StdRng::seed_from_u64(seed ^ 0xdf17);
    let start = 100_000 + rng.gen_range(0..1000u64);
    let mut now = start;
    verif::clock::set_virtual(now * MS);
    drain_callbacks();
    let threads_before = threads_now();
    let tasks_before = TASKS_ALIVE.load(Ordering::SeqCst);
    let max_cost = 100_000i64;
    let nc = 1000usize;
    let cache = if flavor == "sync" {
        let c: SCache = CacheBuilder::new_with_key_builder(nc, max_cost, TabKeys)
            .set_hasher(crate::cache::S::default())
            .set_coster(HCoster(CosterKind::Const2))
            .set_update_validator(HValidator(ValKind::Always))
            .set_callback(crate::cache::HCallback)
            .set_metrics(true)
            .finalize()
            .expect("finalize");
        AnyCache::Sync(c)
    } else {
        let b = AsyncCacheBuilder::new_with_key_builder(nc, max_cost, TabKeys)
            .set_hasher(crate::cache::S::default())
            .set_coster(HCoster(CosterKind::Const2))
            .set_update_validator(HValidator(ValKind::Always))
            .set_callback(crate::cache::HCallback)
            .set_metrics(true);
        let c: ACache = match exec.as_str() {
            "pool" => b.finalize(spawn_pool),
            "local" => b.finalize(spawn_local),
            _ => b.finalize(spawn_thread),
        }
        .expect("finalize");
        AnyCache::Async(c)
    };
    let api = Api(cache);
    let _ = tx.send(json!({"ev":"FInit","flavor":flavor,"exec":exec,"kind":"defaults","max":max_cost,"now":now}));
    let mut accepted: Vec<u64> = Vec::new();
    let cleared: Vec<u64> = Vec::new();
    let mut cbs: Vec<Value> = Vec::new();
    let snap = |api: &Api, now: u64, ticked: bool, accepted: &Vec<u64>, cbs: &mut Vec<Value>, what: &str| {
        cbs.extend(drain_callbacks());
        let p = post(&api.0);
        let _ = tx.send(json!({"ev":"Snap","what":what,"now":now,"ticked":ticked,"due_now":now,"sequentialBelow":false,
            "store":p["store"],"em":p["em"],"costs":p["costs"],"used":p["used"],"max":p["max"],"len":p["len"],"met":p["met"],
            "accepted":accepted,"cleared":cleared,"cbs":cbs.clone(),"lookups":0}));
    };
    let _ = tx.send(json!({"ev":"Op","completed":true,"begin":true,"what":"defaults"}));
    let mut v = 0u64;
    for (k, ttl) in [(2u64, 300u64), (3, 1000), (4, 0), (5, 1700), (6, 2500), (7, 0)] {
        v += 1;
        if api.insert(k, v, rng.gen_range(1..4), ttl) {
            accepted.push(v);
        }
    }
    api.settle();
    snap(&api, now, false, &accepted, &mut cbs, "inserted");
    // the clock passes some of the deadlines; two default cleanup intervals of real time go by, under light traffic
    now += [1100u64, 1800, 2600][rng.gen_range(0..3)];
    verif::clock::set_virtual(now * MS);
    let t0 = Instant::now();
    while t0.elapsed() < Duration::from_millis(4600) || (t0.elapsed() < Duration::from_secs(20) && due_left(&api, now)) {
        v += 1;
        if api.insert(8, v, 1, 3_600_000) {
            accepted.push(v);
        }
        std::thread::sleep(Duration::from_millis(200));
    }
    api.settle();
    snap(&api, now, true, &accepted, &mut cbs, "advance+traffic (default cleanup interval)");
    let _ = tx.send(json!({"ev":"Op","completed":true,"begin":true,"what":"close/drop"}));
    api.close();
    let t0 = Instant::now();
    let mut left;
    loop {
        left = if flavor == "sync" {
            threads_now().saturating_sub(threads_before)
        } else {
            TASKS_ALIVE.load(Ordering::SeqCst).saturating_sub(tasks_before)
        };
        if left == 0 || t0.elapsed() > Duration::from_secs(5) {
            break;
        }
        std::thread::sleep(Duration::from_millis(5));
    }
    drop(api);
    let _ = tx.send(json!({"ev":"Closed","workers_left":left}));
    let _ = tx.send(json!({"ev":"__done"}));
}

/// wait() (and insert) racing close(), many times over on fresh caches: whatever the stopping processor does with a marker that is
/// queued at that very moment, the waiter returns (C10; StopWait.tla is the model of this window), close() returns and the
/// workers terminate (C12)
fn close_instance(tx: mpsc::Sender<Value>, seed: u64, flavor: String, exec: String) {
    use std::sync::atomic::AtomicBool;
    use std::sync::Arc;
    let mut rng = StdRng::seed_from_u64(seed ^ 0xc105e);
    verif::clock::set_virtual(100_000 * MS);
    drain_callbacks();
    let _ = tx.send(json!({"ev":"FInit","flavor":flavor,"exec":exec,"kind":"close races"}));
    for round in 0..150u64 {
        let threads_before = threads_now();
        let tasks_before = TASKS_ALIVE.load(Ordering::SeqCst);
        let api = Arc::new(Api(build_bi(&flavor, &exec, 100, 16, Duration::from_secs(3600), 64, 100, ValKind::Always, seed + round)));
        let _ = tx.send(json!({"ev":"Op","completed":true,"begin":true,"what":"wait() racing close()"}));
        let stop = Arc::new(AtomicBool::new(false));
        let finished = Arc::new(AtomicUsize::new(0));
        let n = 3usize;
        let hs: Vec<_> = (0..n)
            .map(|t| {
                let (api, stop, finished) = (api.clone(), stop.clone(), finished.clone());
                std::thread::spawn(move || {
                    let mut v = 1 + t as u64 * 10_000;
                    while !stop.load(Ordering::SeqCst) {
                        v += 1;
                        api.insert(2 + (v % 5), v, 1, 0);
                        api.wait();
                    }
                    finished.fetch_add(1, Ordering::SeqCst);
                })
            })
            .collect();
        std::thread::sleep(Duration::from_micros(rng.gen_range(100..1500)));
        api.close();
        stop.store(true, Ordering::SeqCst);
        let t0 = Instant::now();
        while finished.load(Ordering::SeqCst) < n && t0.elapsed() < Duration::from_secs(10) {
            std::thread::sleep(Duration::from_micros(200));
        }
        if finished.load(Ordering::SeqCst) < n {
            let _ = tx.send(json!({"ev":"Op","completed":false,"what":"a wait() / insert racing close() never returned","round":round}));
            let _ = tx.send(json!({"ev":"__done"}));
            return;
        }
        for h in hs {
            let _ = h.join();
        }
        let t0 = Instant::now();
        let mut left;
        loop {
            left = if flavor == "sync" {
                threads_now().saturating_sub(threads_before)
            } else {
                TASKS_ALIVE.load(Ordering::SeqCst).saturating_sub(tasks_before)
            };
            if left == 0 || t0.elapsed() > Duration::from_secs(5) {
                break;
            }
            std::thread::sleep(Duration::from_millis(1));
        }
        if left != 0 || round % 50 == 49 {
            let _ = tx.send(json!({"ev":"Closed","workers_left":left,"round":round}));
        }
        drop(api);
    }
    let _ = tx.send(json!({"ev":"__done"}));
}

/// PARALLEL clients, nothing scheduled: (1) several threads write one resident key through a logging validator -- the verdict and
/// the replacement are one critical section, so the logged calls must form a chain (C09); (2) several threads look up a
/// resident and an absent key -- every lookup is exactly one hit or one miss (C17); (3) close() while other threads keep
/// inserting -- it returns and the workers terminate (C12, C20)
fn par_instance(tx: mpsc::Sender<Value>, seed: u64, flavor: String, exec: String) {
    use crate::cache::{VLOG, VLOG_ON};
    use std::sync::atomic::AtomicBool;
    use std::sync::Arc;
    let mut rng = StdRng::seed_from_u64(seed ^ 0x9a7);
    verif::clock::set_virtual(100_000 * MS);
    drain_callbacks();
    let threads_before = threads_now();
    let tasks_before = TASKS_ALIVE.load(Ordering::SeqCst);
    let api = Arc::new(Api(build_bi(&flavor, &exec, 1000, 4096, Duration::from_secs(3600), 64, 1000, ValKind::Logged, seed)));
    let _ = tx.send(json!({"ev":"FInit","flavor":flavor,"exec":exec,"kind":"parallel"}));
    let keys = [2u64, 3, 4];
    let mut next_val = 1u64;
    let mut resident_key = None;
    for &k in keys.iter() {
        let _ = tx.send(json!({"ev":"Op","completed":true,"begin":true,"what":"parallel writers"}));
        let v0 = next_val;
        next_val += 1;
        api.insert(k, v0, 1, 0);
        api.settle();
        if api.get(k) != Some(v0) {
            continue;
        }
        resident_key = Some(k);
        VLOG.lock().clear();
        VLOG_ON.store(true, Ordering::SeqCst);
        verif::locks::drain();
        verif::locks::enable(true);
        // readers of the same key meanwhile: get (guard dropped at once) and get_ttl
        let readers: Vec<_> = (0..2u64)
            .map(|t| {
                let api = api.clone();
                std::thread::Builder::new()
                    .name(format!("par-r{}", t))
                    .spawn(move || {
                        let mut n = 0u64;
                        for i in 0..400u64 {
                            if i % 2 == t % 2 {
                                api.get_ttl(k);
                            } else {
                                api.get(k);
                                n += 1;
                            }
                        }
                        n
                    })
                    .expect("spawn")
            })
            .collect();
        let writers = 4u64;
        let per = 30u64;
        let base = next_val;
        next_val += writers * per;
        let hs: Vec<_> = (0..writers)
            .map(|t| {
                let api = api.clone();
                std::thread::Builder::new().name(format!("par-w{}", t)).spawn(move || {
                    for i in 0..per {
                        let v = base + t * per + i;
                        if (t + i) % 2 == 0 {
                            // some writes carry a TTL: the shard's write lock then nests the expiration map's
                            api.insert(k, v, 1, if i % 3 == 0 { 3_600_000 } else { 0 });
                        } else {
                            api.insert_only(k, v, 1);
                        }
                    }
                }).expect("spawn")
            })
            .collect();
        for h in hs {
            let _ = h.join();
        }
        for h in readers {
            let _ = h.join();
        }
        VLOG_ON.store(false, Ordering::SeqCst);
        verif::locks::enable(false);
        let raw = verif::locks::drain();
        // balance: over the parallel client threads only -- they have been joined; the cache's own workers ("tid-*", checked
        // for the discipline like the others) may be inside a critical section at this very moment
        let par = |e: &&verif::locks::LockEvent| e.thread.starts_with("par-");
        let (wants, rels) = (raw.iter().filter(par).filter(|e| e.kind == "want" || e.kind == "got").count(), raw.iter().filter(par).filter(|e| e.kind == "rel").count());
        let _ = tx.send(json!({"ev":"Locks","locks":crate::cache::lock_events_json(raw, true),"wants":wants,"rels":rels}));
        let calls: Vec<Value> = VLOG.lock().drain(..).map(|(p, c, ok)| json!([p, c, ok])).collect();
        api.settle();
        let fin = api.get(k).map(|v| v as i64).unwrap_or(-1);
        // some of the writes carried a TTL, some did not: the expiration buckets must end up matching the entry that won
        let pq = post(&api.0);
        let _ = tx.send(json!({"ev":"Chain","init":v0,"calls":calls,"final":fin,"writes":writers * per,"store":pq["store"],"em":pq["em"]}));
    }
    // (2) lookups from several threads
    if let Some(k) = resident_key {
        let _ = tx.send(json!({"ev":"Op","completed":true,"begin":true,"what":"parallel lookups"}));
        let absent = 7u64;
        let p0 = post(&api.0);
        let m0 = p0["met"].clone();
        let ring0 = p0["ring"].as_i64().unwrap_or(0);
        let readers = 8u64;
        let per = 20_000u64;
        let hs: Vec<_> = (0..readers)
            .map(|t| {
                let api = api.clone();
                std::thread::spawn(move || {
                    let mut found = 0u64;
                    for _ in 0..per {
                        if api.get(if t % 2 == 0 { k } else { absent }).is_some() {
                            found += 1;
                        }
                    }
                    found
                })
            })
            .collect();
        let mut found = 0u64;
        for h in hs {
            found += h.join().unwrap_or(0);
        }
        let p1 = post(&api.0);
        let m1 = p1["met"].clone();
        let d = |n: &str| m1[n].as_i64().unwrap_or(0) - m0[n].as_i64().unwrap_or(0);
        // every lookup is still in the lookup ring or was handed over in a batch that is counted as kept or as dropped
        let _ = tx.send(json!({"ev":"Hammer","lookups":readers * per,"found":found,"hit":d("hit"),"miss":d("miss"),
            "kept":d("keepGets"),"dropped":d("dropGets"),"ring_before":ring0,"ring_after":p1["ring"]}));
    }
    // (2b) a remover and an inserter per key, in short bursts; after each burst, at quiescence, what is resident is what is
    // charged (Agree of Cache.tla): remove's two halves (store at once, charge through the Delete marker) racing inserts
    let _ = tx.send(json!({"ev":"Op","completed":true,"begin":true,"what":"parallel remove / insert bursts"}));
    for burst in 0..40u64 {
        let hs: Vec<_> = (0..6u64)
            .map(|t| {
                let api = api.clone();
                let base = 2_000_000 + burst * 10_000 + t * 1_000;
                std::thread::Builder::new()
                    .name(format!("par-c{}", t))
                    .spawn(move || {
                        let k = 5 + t / 2; // keys 5, 6, 7: one remover and one inserter each
                        for i in 0..150u64 {
                            if t % 2 == 0 {
                                api.insert(k, base + i, 1, 0);
                            } else {
                                api.remove(k);
                            }
                        }
                    })
                    .expect("spawn")
            })
            .collect();
        for h in hs {
            let _ = h.join();
        }
        api.settle();
        let p = post(&api.0);
        let _ = tx.send(json!({"ev":"Quiesce","what":"after a burst of parallel removes and inserts","store":p["store"],"costs":p["costs"],"used":p["used"],"len":p["len"]}));
    }
    // (2c) two keys that share an index (KEYTAB 0 and 1): one thread alternates them in the store, others call get_mut on
    // each: a lookup of k never hands out a value written under the other key (ResidentOwned of Cache.tla)
    let _ = tx.send(json!({"ev":"Op","completed":true,"begin":true,"what":"parallel get_mut on colliding keys"}));
    {
        let stopf = Arc::new(AtomicBool::new(false));
        let foreign = Arc::new(AtomicUsize::new(0));
        let looked = Arc::new(AtomicUsize::new(0));
        // values of key 0 are even, values of key 1 odd
        let lookers: Vec<_> = (0..4u64)
            .map(|t| {
                let (api, stopf, foreign, looked) = (api.clone(), stopf.clone(), foreign.clone(), looked.clone());
                std::thread::Builder::new()
                    .name(format!("par-g{}", t))
                    .spawn(move || {
                        let k = t % 2;
                        while !stopf.load(Ordering::SeqCst) {
                            if let Some(id) = api.get_mut_id(k) {
                                looked.fetch_add(1, Ordering::Relaxed);
                                if id % 2 != k {
                                    foreign.fetch_add(1, Ordering::SeqCst);
                                }
                            }
                        }
                    })
                    .expect("spawn")
            })
            .collect();
        let mut v = 3_000_000u64;
        for _ in 0..3000 {
            v += 2;
            api.insert(0, v, 1, 0);
            api.settle();
            api.remove(0);
            api.insert(1, v + 1, 1, 0);
            api.settle();
            api.remove(1);
        }
        stopf.store(true, Ordering::SeqCst);
        for h in lookers {
            let _ = h.join();
        }
        api.settle();
        let _ = tx.send(json!({"ev":"Foreign","foreign":foreign.load(Ordering::SeqCst),"lookups":looked.load(Ordering::SeqCst)}));
    }
    // (2e) one key switched between TTL and no TTL by two threads at once, while two more keep the expiration map's lock busy:
    // replacement and re-filing are one critical section, so after every round the expiration index matches the entry that won
    let _ = tx.send(json!({"ev":"Op","completed":true,"begin":true,"what":"parallel TTL / no-TTL writes of one key"}));
    {
        let stopf = Arc::new(AtomicBool::new(false));
        let noise: Vec<_> = (0..4u64)
            .map(|t| {
                let (api, stopf) = (api.clone(), stopf.clone());
                std::thread::Builder::new()
                    .name(format!("par-n{}", t))
                    .spawn(move || {
                        let mut v = 5_000_000 + t * 100_000;
                        while !stopf.load(Ordering::SeqCst) {
                            v += 1;
                            api.insert(5 + t, v, 1, 3_600_000 + (v % 5) * 1000);
                        }
                    })
                    .expect("spawn")
            })
            .collect();
        let k = 4u64;
        for round in 0..300u64 {
            let v = 6_000_000 + round * 4;
            api.insert(k, v, 1, 3_600_000);
            api.settle();
            let barrier = Arc::new(std::sync::Barrier::new(2));
            let hs: Vec<_> = (0..2u64)
                .map(|t| {
                    let (api, barrier) = (api.clone(), barrier.clone());
                    std::thread::spawn(move || {
                        barrier.wait();
                        if t == 0 {
                            api.insert(k, v + 1, 1, 0);
                        } else {
                            api.insert(k, v + 2, 1, 3_600_000);
                        }
                    })
                })
                .collect();
            for h in hs {
                let _ = h.join();
            }
            let p = post(&api.0);
            let idx = crate::cache::KEYTAB[k as usize].0;
            let st: Vec<&Value> = p["store"].as_array().unwrap().iter().filter(|e| e["i"].as_u64() == Some(idx)).collect();
            let em: Vec<&Value> = p["em"].as_array().unwrap().iter().filter(|e| e[1].as_u64() == Some(idx)).collect();
            let _ = tx.send(json!({"ev":"Index","store":st,"em":em}));
        }
        stopf.store(true, Ordering::SeqCst);
        for h in noise {
            let _ = h.join();
        }
        api.settle();
    }
    // (2d) clear() while other threads only LOOK UP (no writes in flight, so the known race D7 of clear() with buffered items
    // cannot occur): the lookups keep the policy mutex and the counters busy; after clear() returned the cache is empty and the
    // counters hold what was counted since, no more (ClearEmpties / MetricsLaws of Cache.tla under real parallelism)
    let _ = tx.send(json!({"ev":"Op","completed":true,"begin":true,"what":"clear() under parallel lookups"}));
    for round in 0..25u64 {
        for k in 2..8u64 {
            api.insert(k, 4_000_000 + round * 10 + k, 1, 0);
        }
        api.settle();
        let stopf = Arc::new(AtomicBool::new(false));
        let gets = Arc::new(std::sync::atomic::AtomicU64::new(0));
        let hs: Vec<_> = (0..4u64)
            .map(|t| {
                let (api, stopf, gets) = (api.clone(), stopf.clone(), gets.clone());
                std::thread::Builder::new()
                    .name(format!("par-l{}", t))
                    .spawn(move || {
                        let mut i = t;
                        while !stopf.load(Ordering::SeqCst) {
                            // counted BEFORE the call: a lookup counted here has certainly started
                            gets.fetch_add(1, Ordering::SeqCst);
                            api.get(2 + i % 7);
                            i += 1;
                        }
                    })
                    .expect("spawn")
            })
            .collect();
        std::thread::sleep(Duration::from_millis(3));
        let g0 = gets.load(Ordering::SeqCst);
        api.clear();
        let g_ret = gets.load(Ordering::SeqCst);
        std::thread::sleep(Duration::from_millis(2));
        stopf.store(true, Ordering::SeqCst);
        for h in hs {
            let _ = h.join();
        }
        let g1 = gets.load(Ordering::SeqCst);
        api.settle();
        let p = post(&api.0);
        // lookups that can have been counted after the reset: those started after the snapshot g0 (4 may have been in flight);
        // lookups that must have been counted after it: those started after clear() returned
        let _ = tx.send(json!({"ev":"ClearLoad","store":p["store"],"costs":p["costs"],"used":p["used"],"len":p["len"],
            "hitmiss":p["met"]["hit"].as_i64().unwrap_or(0) + p["met"]["miss"].as_i64().unwrap_or(0),
            "upper":g1 - g0 + 4,"lower":g1.saturating_sub(g_ret + 4)}));
    }
    // (3) close() under load
    let _ = tx.send(json!({"ev":"Op","completed":true,"begin":true,"what":"close under load"}));
    let stop = Arc::new(AtomicBool::new(false));
    let finished = Arc::new(AtomicUsize::new(0));
    let inserters = 6usize;
    let hs: Vec<_> = (0..inserters)
        .map(|t| {
            let (api, stop, finished) = (api.clone(), stop.clone(), finished.clone());
            let mut v = 1_000_000 + t as u64 * 100_000;
            std::thread::spawn(move || {
                while !stop.load(Ordering::SeqCst) {
                    v += 1;
                    // removes in between: most inserts are New items, the expensive kind for the processor
                    if v % 3 == 0 {
                        api.remove(2 + (v % 6));
                    }
                    api.insert(2 + (v % 6), v, 1, 0);
                    // two of the threads also wait(): a marker queued while the processor stops must not be lost
                    if t < 2 {
                        api.wait();
                    }
                }
                finished.fetch_add(1, Ordering::SeqCst);
            })
        })
        .collect();
    std::thread::sleep(Duration::from_millis(rng.gen_range(5..40)));
    api.close();
    let _ = tx.send(json!({"ev":"Op","completed":true,"what":"close under load returned"}));
    stop.store(true, Ordering::SeqCst);
    let t0 = Instant::now();
    while finished.load(Ordering::SeqCst) < inserters && t0.elapsed() < Duration::from_secs(10) {
        std::thread::sleep(Duration::from_millis(2));
    }
    if finished.load(Ordering::SeqCst) < inserters {
        let _ = tx.send(json!({"ev":"Op","completed":false,"what":"an insert issued around close() never returned"}));
        let _ = tx.send(json!({"ev":"__done"}));
        return;
    }
    for h in hs {
        let _ = h.join();
    }
    let t0 = Instant::now();
    let mut left;
    loop {
        left = if flavor == "sync" {
            threads_now().saturating_sub(threads_before)
        } else {
            TASKS_ALIVE.load(Ordering::SeqCst).saturating_sub(tasks_before)
        };
        if left == 0 || t0.elapsed() > Duration::from_secs(5) {
            break;
        }
        std::thread::sleep(Duration::from_millis(5));
    }
    let _ = tx.send(json!({"ev":"Closed","workers_left":left}));
    drop(api);
    let _ = tx.send(json!({"ev":"__done"}));
}

pub fn run(o: &Opts) -> i32 {
    let seed = o.u64("seed", 1);
    let out = o.str("out", "/verif/work/free.ndjson");
    let flavor = o.str("flavor", "sync");
    let exec = o.str("exec", "thread");
    let n = o.u64("n", 6);
    let tick_ms = o.u64("tick", 25);
    std::panic::set_hook(Box::new(|_| {}));
    // warm-up: global helper threads (async-io reactor) exist before thread counts are taken
    {
        let (tx, rx) = mpsc::channel();
        let (f, e) = (flavor.clone(), exec.clone());
        std::thread::spawn(move || instance(tx, 0, f, e, tick_ms, false, true, 8));
        while let Ok(v) = rx.recv_timeout(Duration::from_secs(30)) {
            if v["ev"] == "__done" {
                break;
            }
        }
    }
    let mut t = Trace::create(&out);
    let mut stuck = 0;
    // the cycle of instance kinds: norm (operations + clock + real ticks), drop (handles dropped, no close), tiny (cleanup
    // interval of nanoseconds), est (lookups racing writes, estimates), par (parallel clients)
    let kinds: Vec<String> = o.str("kinds", if o.flag("est") { "norm,est,drop,tiny" } else { "norm,norm,drop,tiny" }).split(',').map(|s| s.to_string()).collect();
    let pclear = o.u64("pclear", 8).min(16) as i32;
    for j in 0..n {
        let kind = kinds[j as usize % kinds.len()].clone();
        let (tx, rx) = mpsc::channel();
        let (f, e) = (flavor.clone(), exec.clone());
        match kind.as_str() {
            "est" => {
                std::thread::spawn(move || est_instance(tx, seed * 1000 + j, f, e));
            }
            "par" => {
                std::thread::spawn(move || par_instance(tx, seed * 1000 + j, f, e));
            }
            "dflt" => {
                std::thread::spawn(move || dflt_instance(tx, seed * 1000 + j, f, e));
            }
            "close" => {
                std::thread::spawn(move || close_instance(tx, seed * 1000 + j, f, e));
            }
            k => {
                let (tiny, drop_only) = (k == "tiny", k == "drop");
                std::thread::spawn(move || instance(tx, seed * 1000 + j, f, e, tick_ms, tiny, drop_only, pclear));
            }
        }
        loop {
            match rx.recv_timeout(Duration::from_secs(25)) {
                Ok(v) => {
                    if v["ev"] == "__done" {
                        break;
                    }
                    t.push(v);
                }
                Err(_) => {
                    // an operation never completed: the instance's thread is abandoned
                    t.push(json!({"ev":"Op","completed":false,"what":"an operation of the public API did not return within 25 s"}));
                    stuck += 1;
                    break;
                }
            }
        }
        if stuck > 0 {
            break;
        }
    }
    let lines = t.finish();
    println!("{}", json!({"instances":n,"lines":lines,"stuck":stuck,"out":out,"flavor":flavor,"exec":exec}));
    0
}
