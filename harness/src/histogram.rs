//! `vh histogram`: drive the public `stretto::Histogram` and record what it shows after every call
//! (Display output: min, max, count, non-empty buckets; percentile(p); mean()) for Histogram_Trace.tla (C17).
use crate::util::{Opts, Trace};
use rand::rngs::StdRng;
use rand::{Rng, SeedableRng};
use serde_json::{json, Value};
use stretto::Histogram;

fn observe(h: &Histogram, bounds: &[i64]) -> Value {
    let s = format!("{}", h);
    let mut min = 0i64;
    let mut max = 0i64;
    let mut count = 0i64;
    let mut buckets = Vec::new();
    for line in s.lines() {
        if let Some(v) = line.strip_prefix("Min value: ") {
            min = v.trim().parse().unwrap_or(-1);
        } else if let Some(v) = line.strip_prefix("Max value: ") {
            max = v.trim().parse().unwrap_or(-1);
        } else if let Some(v) = line.strip_prefix("Count: ") {
            count = v.trim().parse().unwrap_or(-1);
        } else if line.starts_with('[') {
            // "[lb, ub) ct page% cum%"  or  "[lb, infinity) ..."
            let inner = &line[1..line.find(')').unwrap_or(1)];
            let mut it = inner.split(", ");
            let lb: i64 = it.next().unwrap_or("0").parse().unwrap_or(0);
            let ub = it.next().unwrap_or("");
            let rest: Vec<&str> = line[line.find(')').unwrap_or(0) + 1..].split_whitespace().collect();
            let ct: i64 = rest.first().and_then(|x| x.parse().ok()).unwrap_or(-1);
            let idx = if ub == "infinity" {
                bounds.len() + 1
            } else {
                let ubv: i64 = ub.parse().unwrap_or(-1);
                let _ = lb;
                bounds.iter().position(|b| *b == ubv).map(|p| p + 1).unwrap_or(0)
            };
            buckets.push(json!([idx, ct]));
        }
    }
    let pct: Vec<Value> = [(0, 1), (1, 4), (1, 2), (3, 4), (1, 1), (1, 8)]
        .iter()
        .map(|(n, d)| json!([n, d, h.percentile(*n as f64 / *d as f64) as i64]))
        .collect();
    let minmax = min == i64::MAX;
    json!({"count":count,"max":max,"min": if minmax { 0 } else { min },"minmax":minmax,"buckets":buckets,"pct":pct,
           "mean100": (h.mean() * 100.0).round() as i64})
}

pub fn run(o: &Opts) -> i32 {
    let seed = o.u64("seed", 1);
    let out = o.str("out", "/verif/work/histogram.ndjson");
    let mut rng = StdRng::seed_from_u64(seed ^ 0x4157);
    let mut t = Trace::create(&out);
    let n = if o.thorough() { 120 } else { 25 };
    for i in 0..n {
        // bounds: powers of two 2^1..2^k (what Metrics uses: 2^1..2^16) or irregular increasing ones
        let bounds: Vec<i64> = if i % 2 == 0 {
            (1..=rng.gen_range(2..=16)).map(|e| 1i64 << e).collect()
        } else {
            let mut b = Vec::new();
            let mut x = rng.gen_range(1..5);
            for _ in 0..rng.gen_range(1..7) {
                b.push(x);
                x += rng.gen_range(1..40);
            }
            b
        };
        let h = Histogram::new(bounds.iter().map(|b| *b as f64).collect());
        t.push(json!({"ev":"new","bounds":bounds,"obs":observe(&h, &bounds)}));
        for _ in 0..rng.gen_range(5..60) {
            if rng.gen_range(0..100) < 4 {
                h.clear();
                t.push(json!({"ev":"clear","obs":observe(&h, &bounds)}));
                continue;
            }
            // values on and around the bounds, small and large
            let v: i64 = match rng.gen_range(0..4) {
                0 => bounds[rng.gen_range(0..bounds.len())] + rng.gen_range(-1..=1),
                1 => rng.gen_range(0..4),
                2 => rng.gen_range(0..(bounds[bounds.len() - 1] + 10)),
                _ => bounds[bounds.len() - 1] + rng.gen_range(0..1000),
            }
            .max(0);
            h.update(v);
            t.push(json!({"ev":"update","v":v,"obs":observe(&h, &bounds)}));
        }
    }
    let lines = t.finish();
    println!("{}", json!({"instances":n,"lines":lines,"out":out}));
    0
}
