//! `vh keyhash`: record build_key results of TransparentKeyBuilder (every integer type) and
//! DefaultKeyBuilder (owned / borrowed forms) for KeyHash_Trace.tla (C18).
use crate::util::{limbs, Opts, Trace};
use rand::rngs::StdRng;
use rand::{Rng, SeedableRng};
use serde_json::json;
use stretto::{DefaultKeyBuilder, KeyBuilder, TransparentKey, TransparentKeyBuilder};

fn tk<T: TransparentKey + Copy + Default>(t: &mut Trace, ty: &str, k: T, neg: bool, mag: u64) {
    let kb = TransparentKeyBuilder::<T>::default();
    let (i, c) = kb.build_key(&k);
    t.push(json!({"ev":"tk","ty":ty,"neg":neg,"mag":limbs(mag),"idx":limbs(i),"cfl":limbs(c)}));
    // twice: deterministic
    let (i2, c2) = kb.build_key(&k);
    t.push(json!({"ev":"tk","ty":ty,"neg":neg,"mag":limbs(mag),"idx":limbs(i2),"cfl":limbs(c2)}));
}

macro_rules! unsigned {
    ($t:expr, $rng:expr, $ty:ty, $name:expr, $n:expr) => {{
        let mut vals: Vec<$ty> = vec![0, 1, 2, <$ty>::MAX, <$ty>::MAX - 1, <$ty>::MAX / 2, <$ty>::MAX / 2 + 1];
        for s in 0..(<$ty>::BITS) {
            vals.push((1 as $ty) << s);
            vals.push(((1 as $ty) << s).wrapping_sub(1));
        }
        for _ in 0..$n {
            vals.push($rng.gen::<$ty>());
        }
        for v in vals {
            tk::<$ty>($t, $name, v, false, v as u64);
        }
    }};
}
macro_rules! signed {
    ($t:expr, $rng:expr, $ty:ty, $name:expr, $n:expr) => {{
        let mut vals: Vec<$ty> = vec![0, 1, -1, 2, -2, <$ty>::MAX, <$ty>::MIN, <$ty>::MIN + 1, <$ty>::MAX - 1];
        for s in 0..(<$ty>::BITS - 1) {
            vals.push((1 as $ty) << s);
            vals.push(-((1 as $ty) << s));
        }
        for _ in 0..$n {
            vals.push($rng.gen::<$ty>());
        }
        for v in vals {
            tk::<$ty>($t, $name, v, v < 0, (v as i128).unsigned_abs() as u64);
        }
    }};
}

pub fn run(o: &Opts) -> i32 {
    let seed = o.u64("seed", 1);
    let out = o.str("out", "/verif/work/keyhash.ndjson");
    let mut rng = StdRng::seed_from_u64(seed ^ 0x4e7);
    let mut t = Trace::create(&out);
    let n = if o.thorough() { 2000 } else { 200 };
    t.push(json!({"ev":"new"}));
    unsigned!(&mut t, rng, u8, "u8", 20);
    unsigned!(&mut t, rng, u16, "u16", n / 4);
    unsigned!(&mut t, rng, u32, "u32", n);
    unsigned!(&mut t, rng, u64, "u64", n);
    unsigned!(&mut t, rng, usize, "usize", n / 2);
    signed!(&mut t, rng, i8, "i8", 20);
    signed!(&mut t, rng, i16, "i16", n / 4);
    signed!(&mut t, rng, i32, "i32", n);
    signed!(&mut t, rng, i64, "i64", n);
    signed!(&mut t, rng, isize, "isize", n / 2);
    tk::<bool>(&mut t, "bool", false, false, 0);
    tk::<bool>(&mut t, "bool", true, false, 1);
    // DefaultKeyBuilder: the same key in owned and borrowed forms, interleaved and repeated
    t.push(json!({"ev":"new"}));
    let kb = DefaultKeyBuilder::<String>::default();
    let words: Vec<String> = (0..(n / 4)).map(|i| format!("key-{}-{}", i, rng.gen::<u32>())).collect();
    for round in 0..3 {
        for (id, w) in words.iter().enumerate() {
            let (i, c) = match (round + id) % 3 {
                0 => kb.build_key(w),
                1 => kb.build_key::<str>(w.as_str()),
                _ => {
                    let owned: String = w.clone();
                    kb.build_key(&owned)
                }
            };
            t.push(json!({"ev":"dk","id":id + 1,"form":(round + id) % 3,"idx":limbs(i),"cfl":limbs(c)}));
        }
    }
    // u64 keys through the default builder as well
    t.push(json!({"ev":"new"}));
    let kb2 = DefaultKeyBuilder::<u64>::default();
    for round in 0..2 {
        for id in 0..(n / 4) as u64 {
            let (i, c) = kb2.build_key(&id);
            let _ = round;
            t.push(json!({"ev":"dk","id":id + 1,"form":0,"idx":limbs(i),"cfl":limbs(c)}));
        }
    }
    let lines = t.finish();
    println!("{}", json!({"lines":lines,"out":out}));
    0
}
