//! `vh scenario`: directed schedules that reproduce the known findings on the real code
//! (printed by the checks as KNOWN-FINDING lines while they still reproduce).
use crate::cache::{Cmd, Config, CosterKind, ValKind, World};
use crate::sched::{self, St};
use crate::util::{Opts, Trace};
use serde_json::json;
use stretto::verif::{self, Branch};

fn world(flavor: &str, out: &str, clients: usize) -> World {
    let cfg = Config {
        flavor: flavor.to_string(),
        buf_cap: 4,
        max_cost: 10,
        num_counters: 1000,
        buffer_items: 64,
        ignore_internal: true,
        coster: CosterKind::Const2,
        validator: ValKind::Always,
        clients,
        start_ms: 100_000,
        metrics: true,
    };
    World::new(cfg, Trace::create(out))
}

/// D6: wait() enqueues its marker, a concurrent close() reaches the stop rendezvous, the
/// processor's select! takes the stop arm: the marker is dropped and the waiter blocks for ever.
fn d6(flavor: &str, out: &str) -> bool {
    let mut w = world(flavor, out, 2);
    w.step_client(0, Some(Cmd::Wait)); // WaitSend: marker buffered
    w.step_client(0, None); // enters wg.wait()
    w.step_client(1, Some(Cmd::Close)); // ClrSend
    for _ in 0..4 {
        if matches!(w.client_state(1), St::Parked(_)) {
            w.step_client(1, None); // ClrPolicy, ClrStore, ClrMetrics, ClsStopSend
        }
    }
    w.step_proc(Branch::Stop); // the stop arm wins although the buffer and the clear signal are ready
    w.drain();
    let hung = w.hung.contains(&1);
    let _ = w.finish();
    hung
}

/// D7: an insert is buffered, clear() runs to completion on the client thread, then the
/// processor's select! takes the buffered item before the clear signal: the entry inserted
/// before clear() is resident and retrievable after clear() returned and the cache is quiescent.
fn d7(flavor: &str, out: &str) -> bool {
    let mut w = world(flavor, out, 1);
    w.step_client(0, Some(Cmd::Insert { k: 3, cost: 1, ttl: 0, only: false }));
    w.step_client(0, None); // InsSend -> true
    w.step_client(0, Some(Cmd::Clear));
    for _ in 0..3 {
        w.step_client(0, None);
    }
    w.step_proc(Branch::Insert); // PNewAdd: the New item queued before clear()
    w.step_proc(Branch::Insert); // PNewStore
    w.step_proc(Branch::Clear); // PClrTake
    w.step_proc(Branch::Clear); // PCleanEnd
    w.step_client(0, Some(Cmd::Get { k: 3 }));
    let hit = w.last_out["t"] == "val";
    w.drain();
    let _ = w.finish();
    hit
}

pub fn run(o: &Opts) -> i32 {
    let name = o.str("name", "d6");
    let flavor = o.str("flavor", "sync");
    let out = o.str("out", "/verif/work/scenario.ndjson");
    sched::install();
    if flavor == "async" {
        sched::set_pass_through(&["open_checked", "rem_send"]);
    } else {
        sched::set_pass_through(&["open_checked"]);
    }
    verif::events_enable(true);
    std::panic::set_hook(Box::new(|_| {}));
    let reproduced = match name.as_str() {
        "d6" => d6(&flavor, &out),
        "d7" => d7(&flavor, &out),
        _ => false,
    };
    println!("{}", json!({"scenario":name,"flavor":flavor,"reproduced":reproduced,"out":out}));
    0
}
