//! vh — conformance harness binding the TLA+ specifications in /verif/spec to
//! the real stretto code (built from /repo with --cfg transparencies_stretto_verif).
//!
//! Every sub-command drives the real code and writes an ndjson trace that the
//! corresponding *_Trace.tla specification validates with TLC.
mod bloom;
mod free;
mod histogram;
mod keyhash;
mod cache;
mod scenario;
mod sched;
mod policy;
mod sketch;
mod util;

use std::collections::HashMap;

fn main() {
    let args: Vec<String> = std::env::args().collect();
    if args.len() < 2 {
        eprintln!("usage: vh <sketch|bloom|policy|cache|...> [--key value]...");
        std::process::exit(2);
    }
    let cmd = args[1].clone();
    let mut opts: HashMap<String, String> = HashMap::new();
    let mut i = 2;
    while i < args.len() {
        if let Some(k) = args[i].strip_prefix("--") {
            let v = if i + 1 < args.len() && !args[i + 1].starts_with("--") {
                i += 1;
                args[i].clone()
            } else {
                "true".to_string()
            };
            opts.insert(k.to_string(), v);
        }
        i += 1;
    }
    let o = util::Opts(opts);
    let code = match cmd.as_str() {
        "sketch" => sketch::run(&o),
        "bloom" => bloom::run(&o),
        "free" => free::run(&o),
        "histogram" => histogram::run(&o),
        "keyhash" => keyhash::run(&o),
        "cache" => cache::run(&o),
        "scenario" => scenario::run(&o),
        "policy" => policy::run(&o),
        _ => {
            eprintln!("unknown command {}", cmd);
            2
        }
    };
    std::process::exit(code);
}
