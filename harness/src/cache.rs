//! `vh cache`: run schedules against the real Cache / AsyncCache with parked processors under
//! the baton scheduler and record one trace event per critical section (validated by
//! spec/Cache_Trace.tla).
use crate::sched::{self, Actor, St};
use crate::util::{Opts, Trace};
use parking_lot::Mutex;
use rand::rngs::StdRng;
use rand::{Rng, SeedableRng};
use serde_json::{json, Value};
use std::collections::HashMap;
use std::hash::{BuildHasherDefault, Hash, Hasher};
use std::sync::Arc;
use std::time::Duration;
use stretto::verif::{self, Branch, Event, Snapshot, Stepped};
use stretto::{AsyncCache, AsyncCacheBuilder, Cache, CacheBuilder, CacheCallback, Coster, Item, KeyBuilder, UpdateValidator};

// ------------------------------------------------------------------------------------------
// value / key / callback / coster / validator types of the harness

#[derive(Clone, Debug)]
pub struct V {
    pub id: u64,
    pub rev: u64,
}

/// (index, conflict) of harness key id k: pairs sharing an index, conflict-0 keys, plain keys
pub const KEYTAB: [(u64, u64); 12] = [
    (1, 1), (1, 2), (2, 0), (3, 3), (4, 4), (5, 5), (6, 6), (7, 7), (8, 8), (9, 1), (9, 2), (10, 0),
];

#[derive(Default, Clone, Copy)]
struct IdHasher(u64);
impl Hasher for IdHasher {
    fn finish(&self) -> u64 {
        self.0
    }
    fn write(&mut self, bytes: &[u8]) {
        let mut b = [0u8; 8];
        let n = bytes.len().min(8);
        b[..n].copy_from_slice(&bytes[..n]);
        self.0 = u64::from_ne_bytes(b);
    }
    fn write_u64(&mut self, i: u64) {
        self.0 = i;
    }
}

/// harness key whose index (258) shares a store shard with index 2 without colliding with it
pub const SHARD_MATE: u64 = 1000;

#[derive(Clone, Default)]
pub struct TabKeys;
impl KeyBuilder for TabKeys {
    type Key = u64;
    fn hash_index<Q>(&self, key: &Q) -> u64
    where
        Self::Key: core::borrow::Borrow<Q>,
        Q: Hash + Eq + ?Sized,
    {
        let mut h = IdHasher(0);
        key.hash(&mut h);
        if h.finish() == SHARD_MATE {
            // an index of its own that lands in the SHARD of KEYTAB[2] (index 2): 2 + 256 (free-running runs only)
            return 258;
        }
        KEYTAB[h.finish() as usize % KEYTAB.len()].0
    }
    fn hash_conflict<Q>(&self, key: &Q) -> u64
    where
        Self::Key: core::borrow::Borrow<Q>,
        Q: Hash + Eq + ?Sized,
    {
        let mut h = IdHasher(0);
        key.hash(&mut h);
        if h.finish() == SHARD_MATE {
            return 7;
        }
        KEYTAB[h.finish() as usize % KEYTAB.len()].1
    }
}

#[derive(Clone, Copy, PartialEq)]
pub enum CosterKind {
    Const2,
    Mod3,
    Zero,
}
pub struct HCoster(pub CosterKind);
impl Coster for HCoster {
    type Value = V;
    fn cost(&self, v: &V) -> i64 {
        match self.0 {
            CosterKind::Const2 => 2,
            CosterKind::Mod3 => (v.id % 3) as i64 + 1,
            CosterKind::Zero => 0,
        }
    }
}

#[derive(Clone, Copy, PartialEq)]
pub enum ValKind {
    Always,
    Sum5,
    Asym3,
    Never,
    /// Asym3, every call logged (free-running parallel clients: the calls on one key must form a chain)
    Logged,
}
pub static VLOG_ON: std::sync::atomic::AtomicBool = std::sync::atomic::AtomicBool::new(false);
pub static VLOG: Mutex<Vec<(u64, u64, bool)>> = Mutex::new(Vec::new());
pub struct HValidator(pub ValKind);
impl UpdateValidator for HValidator {
    type Value = V;
    fn should_update(&self, prev: &V, curr: &V) -> bool {
        match self.0 {
            ValKind::Always => true,
            ValKind::Sum5 => (prev.id + curr.id) % 5 != 0,
            ValKind::Asym3 => (prev.id + 2 * curr.id) % 5 != 0,
            ValKind::Never => false,
            ValKind::Logged => {
                let ok = (prev.id + 2 * curr.id) % 5 != 0;
                if VLOG_ON.load(std::sync::atomic::Ordering::SeqCst) {
                    VLOG.lock().push((prev.id, curr.id, ok));
                    // the verdict takes a little while: other writers of the key queue up behind this one
                    let t0 = std::time::Instant::now();
                    while t0.elapsed() < Duration::from_micros(30) {
                        std::hint::spin_loop();
                    }
                }
                ok
            }
        }
    }
}


/// the builder's setters in one of three orders (type-changing ones first / last / interleaved): the
/// cache that comes out must be the same whatever the order
#[macro_export]
macro_rules! build_in_order {
    ($b:expr, $order:expr, $coster:expr, $validator:expr, $buf:expr, $bi:expr, $metrics:expr, $ignore:expr, $tick:expr; $($fin:tt)+) => {
        match $order % 3 {
            0 => $b
                .set_hasher($crate::cache::S::default())
                .set_coster($coster)
                .set_update_validator($validator)
                .set_callback($crate::cache::HCallback)
                .set_buffer_size($buf)
                .set_buffer_items($bi)
                .set_metrics($metrics)
                .set_ignore_internal_cost($ignore)
                .set_cleanup_duration($tick)
                .$($fin)+,
            1 => $b
                .set_buffer_size($buf)
                .set_buffer_items($bi)
                .set_metrics($metrics)
                .set_ignore_internal_cost($ignore)
                .set_cleanup_duration($tick)
                .set_hasher($crate::cache::S::default())
                .set_coster($coster)
                .set_update_validator($validator)
                .set_callback($crate::cache::HCallback)
                .$($fin)+,
            _ => $b
                .set_metrics($metrics)
                .set_coster($coster)
                .set_ignore_internal_cost($ignore)
                .set_update_validator($validator)
                .set_buffer_size($buf)
                .set_callback($crate::cache::HCallback)
                .set_buffer_items($bi)
                .set_hasher($crate::cache::S::default())
                .set_cleanup_duration($tick)
                .$($fin)+,
        }
    };
}

/// lock events of the actors' threads as JSON records {k: want|rel, t: thread, c: class, id, m: mode, held: [{c, id, m}]};
/// lock addresses become small numbers in order of appearance; `dedupe`: identical records once (free-running runs)
pub fn lock_events_json(evs: Vec<verif::locks::LockEvent>, dedupe: bool) -> Vec<Value> {
    let mut ids: HashMap<usize, usize> = HashMap::new();
    let mut out: Vec<Value> = Vec::new();
    let mut seen: std::collections::HashSet<String> = std::collections::HashSet::new();
    for e in evs {
        // free-running runs (dedupe): every thread counts -- the parallel clients ("par-*") and the cache's own unnamed worker
        // threads ("tid-*"); scheduled runs: the actors only (the harness' own reads -- len(), snapshots -- are on "main")
        let actor = e.thread.starts_with("client") || e.thread.starts_with("proc") || e.thread.starts_with("policy");
        if !(actor || (dedupe && (e.thread.starts_with("par-") || e.thread.starts_with("tid-")))) {
            continue;
        }
        if dedupe {
            ids.clear();
        }
        let mut idof = |a: usize, ids: &mut HashMap<usize, usize>| {
            let n = ids.len() + 1;
            *ids.entry(a).or_insert(n)
        };
        let held: Vec<Value> = e.held.iter().map(|h| json!({"c":h.0,"id":idof(h.1, &mut ids),"m":h.2.to_string()})).collect();
        let v = json!({"k":e.kind,"t":if dedupe { "par".to_string() } else { e.thread.clone() },"c":e.lock.0,"id":idof(e.lock.1, &mut ids),"m":e.lock.2.to_string(),"held":held});
        if dedupe {
            if (e.kind != "want" && e.kind != "got") || !seen.insert(v.to_string()) {
                continue;
            }
        }
        out.push(v);
    }
    out
}

static CALLBACKS: Mutex<Vec<Value>> = Mutex::new(Vec::new());

/// while set, `on_reject` does not return (at most 5 s): the processor is parked between two items
pub static GATE_CLOSED: std::sync::atomic::AtomicBool = std::sync::atomic::AtomicBool::new(false);

pub struct HCallback;
impl CacheCallback for HCallback {
    type Value = V;
    fn on_exit(&self, val: Option<V>) {
        CALLBACKS.lock().push(json!({"kind":"exit","val":val.map(|v| v.id as i64).unwrap_or(-1),"cost":0}));
    }
    fn on_evict(&self, item: Item<V>) {
        CALLBACKS.lock().push(json!({"kind":"evict","val":item.val.map(|v| v.id as i64).unwrap_or(-1),"cost":item.cost}));
    }
    fn on_reject(&self, item: Item<V>) {
        CALLBACKS.lock().push(json!({"kind":"reject","val":item.val.map(|v| v.id as i64).unwrap_or(-1),"cost":item.cost}));
        // free-running runs can hold the processor here (it calls this between items, with no lock held) to line items up behind it
        let t0 = std::time::Instant::now();
        while GATE_CLOSED.load(std::sync::atomic::Ordering::SeqCst) && t0.elapsed() < Duration::from_secs(5) {
            std::thread::sleep(Duration::from_micros(200));
        }
    }
}

pub(crate) type S = BuildHasherDefault<std::collections::hash_map::DefaultHasher>;
pub(crate) type SCache = Cache<u64, V, TabKeys, HCoster, HValidator, HCallback, S>;
pub(crate) type ACache = AsyncCache<u64, V, TabKeys, HCoster, HValidator, HCallback, S>;
type SProc = verif::SyncProc<V, HValidator, HCallback, S>;
type AProc = verif::AsyncProc<V, HValidator, HCallback, S>;
type SPol = verif::SyncPolicyProc<S>;
type APol = verif::AsyncPolicyProc<S>;

#[derive(Clone)]
pub enum AnyCache {
    Sync(SCache),
    Async(ACache),
}
pub enum AnyProc {
    Sync(SProc),
    Async(AProc),
}
pub enum AnyPol {
    Sync(SPol),
    Async(APol),
}

impl AnyProc {
    fn step(&mut self, b: Branch) -> Stepped {
        match self {
            AnyProc::Sync(p) => p.step(b),
            AnyProc::Async(p) => p.step(b),
        }
    }
    fn item_size(&self) -> usize {
        match self {
            AnyProc::Sync(p) => p.item_size(),
            AnyProc::Async(p) => p.item_size(),
        }
    }
}
impl AnyPol {
    fn step(&mut self, b: Branch) -> Stepped {
        match self {
            AnyPol::Sync(p) => p.step(b),
            AnyPol::Async(p) => p.step(b),
        }
    }
}

#[derive(Clone)]
pub struct Config {
    pub flavor: String,
    pub buf_cap: usize,
    pub max_cost: i64,
    pub num_counters: usize,
    pub buffer_items: usize,
    pub ignore_internal: bool,
    pub coster: CosterKind,
    pub validator: ValKind,
    pub clients: usize,
    pub start_ms: u64,
    pub metrics: bool,
}

pub(crate) fn bo<F: std::future::Future>(f: F) -> F::Output {
    futures::executor::block_on(f)
}

impl AnyCache {
    fn snapshot(&self) -> Snapshot<V> {
        match self {
            AnyCache::Sync(c) => verif::snapshot_sync(c),
            AnyCache::Async(c) => verif::snapshot_async(c),
        }
    }
    fn estimates(&self) -> Value {
        let mut idx: Vec<u64> = KEYTAB.iter().map(|k| k.0).collect();
        idx.sort();
        idx.dedup();
        json!(idx.iter().map(|i| match self {
            AnyCache::Sync(c) => json!([i, verif::estimate_sync(c, *i)]),
            AnyCache::Async(c) => json!([i, verif::estimate_async(c, *i)]),
        }).collect::<Vec<_>>())
    }
    fn metrics(&self) -> Value {
        let m = match self {
            AnyCache::Sync(c) => c.metrics.clone(),
            AnyCache::Async(c) => c.metrics.clone(),
        };
        // cost_added is a wrapping counter: report it as a signed number
        json!({
            "hit": m.get_hits().unwrap_or(0), "miss": m.get_misses().unwrap_or(0),
            "keyAdd": m.get_keys_added().unwrap_or(0), "keyUpd": m.get_keys_updated().unwrap_or(0),
            "keyEvict": m.get_keys_evicted().unwrap_or(0),
            "costAdd": m.get_cost_added().unwrap_or(0) as i64, "costEvict": m.get_cost_evicted().unwrap_or(0) as i64,
            "dropSets": m.get_sets_dropped().unwrap_or(0), "rejectSets": m.get_sets_rejected().unwrap_or(0),
            "dropGets": m.get_gets_dropped().unwrap_or(0), "keepGets": m.get_gets_kept().unwrap_or(0),
            "ratio_ppm": (m.ratio().unwrap_or(0.0) * 1_000_000.0).round() as i64,
            "life_count": m.life_expectancy_seconds().map(|h| parse_count(&format!("{}", h))).unwrap_or(0),
        })
    }
}

fn parse_count(s: &str) -> i64 {
    s.lines().find_map(|l| l.strip_prefix("Count: ")).and_then(|v| v.trim().parse().ok()).unwrap_or(-1)
}

pub const MS: u64 = 1_000_000;

pub(crate) fn post(c: &AnyCache) -> Value {
    let s = c.snapshot();
    json!({
        "store": s.entries.iter().map(|e| json!({"i":e.index,"c":e.conflict,"v":e.value.id,"r":e.value.rev,"d":if e.d == u64::MAX { HUGE_MS } else { e.d / MS },"at":e.at / MS})).collect::<Vec<_>>(),
        "em": s.buckets.iter().flat_map(|(b, ks)| ks.iter().map(move |(k, c)| json!([if *b == i64::MAX { LAST_BUCKET } else { *b }, k, c]))).collect::<Vec<_>>(),
        "costs": s.costs.iter().map(|(k, c)| json!([k, c])).collect::<Vec<_>>(),
        "used": s.used, "max": s.max_cost, "buf": s.buf_len, "clearq": s.clear_len, "stopq": s.stop_len,
        "closed": s.closed, "polclosed": s.pol_closed, "len": s.len, "ring": s.ring_len, "polq": s.pol_queue_len,
        "met": c.metrics(),
        "est": c.estimates(), "tinyw": s.tiny_w,
    })
}

/// results in the typed shape the specification uses
fn typed(cmd: Option<&Cmd>, v: Option<&Value>) -> Value {
    let v = match v {
        None => return json!({"t":"pending"}),
        Some(v) => v,
    };
    if let Some(p) = v.get("panic") {
        return json!({"t":"panic","msg":p});
    }
    match (cmd, v) {
        (_, Value::Null) => json!({"t":"none"}),
        (_, Value::Bool(b)) => json!({"t":"bool","b":b}),
        (_, Value::String(s)) => json!({"t":s}),
        (Some(Cmd::GetTtl { .. }), Value::Number(n)) => json!({"t":"ttl","ms":n}),
        (Some(Cmd::Observe), Value::Array(a)) => json!({"t":"obs","len":a[0],"max":a[1]}),
        (_, Value::Array(a)) => json!({"t":"val","v":a[0],"r":a[1]}),
        (_, x) => json!({"t":"other","x":x}),
    }
}

pub(crate) fn drain_callbacks() -> Vec<Value> {
    std::mem::take(&mut *CALLBACKS.lock())
}

// ------------------------------------------------------------------------------------------
// one cache instance under the scheduler

#[derive(Clone, Debug)]
pub enum Cmd {
    Insert { k: u64, cost: i64, ttl: u64, only: bool },
    Remove { k: u64 },
    Get { k: u64 },
    GetMut { k: u64 },
    GetTtl { k: u64 },
    Clear,
    Close,
    Wait,
    SetMax { m: i64 },
    Observe,
}

struct Client {
    actor: Arc<Actor>,
    /// the command in flight (if any) and the value id it writes
    cur: Option<(Cmd, u64)>,
    /// how many grants the current command has had
    steps: usize,
    /// the blocking call the client was last seen inside (release not yet recorded)
    blocked: Option<&'static str>,
}

pub struct World {
    pub cfg: Config,
    pub cache: AnyCache,
    proc_: Arc<Mutex<Option<AnyProc>>>,
    pol: Arc<Mutex<Option<AnyPol>>>,
    proc_actor: Arc<Actor>,
    pol_actor: Arc<Actor>,
    clients: Vec<Client>,
    pub now_ms: u64,
    next_val: u64,
    pub t: Trace,
    pub item_size: usize,
    proc_exited: bool,
    pol_exited: bool,
    wait_done_pending: usize,
    pub events: usize,
    pub hung: Vec<usize>,
    /// typed result of the most recently completed public call
    pub last_out: Value,
    /// an actor got stuck inside the code under test: the instance is abandoned
    pub aborted: bool,
}

fn key_pair(k: u64) -> Value {
    let (i, c) = KEYTAB[k as usize % KEYTAB.len()];
    json!([i, c])
}

impl World {
    pub fn new(cfg: Config, t: Trace) -> World {
        verif::clock::set_virtual(cfg.start_ms * MS);
        drain_callbacks();
        verif::drain_events();
        let (cache, mut parked) = match cfg.flavor.as_str() {
            "sync" => {
                let cfgc = cfg.clone();
                let (c, parked) = verif::build_parked(move || {
                    crate::build_in_order!(CacheBuilder::new_with_key_builder(cfgc.num_counters, cfgc.max_cost, TabKeys), cfgc.start_ms,
                        HCoster(cfgc.coster), HValidator(cfgc.validator), cfgc.buf_cap, cfgc.buffer_items, cfgc.metrics, cfgc.ignore_internal,
                        Duration::from_secs(3600); finalize())
                });
                (AnyCache::Sync(c.expect("finalize sync")), parked)
            }
            _ => {
                let cfgc = cfg.clone();
                let (c, parked) = verif::build_parked(move || {
                    crate::build_in_order!(AsyncCacheBuilder::new_with_key_builder(cfgc.num_counters, cfgc.max_cost, TabKeys), cfgc.start_ms,
                        HCoster(cfgc.coster), HValidator(cfgc.validator), cfgc.buf_cap, cfgc.buffer_items, cfgc.metrics, cfgc.ignore_internal,
                        Duration::from_secs(3600); finalize(|_f| panic!("processor must be parked, not spawned")))
                });
                (AnyCache::Async(c.expect("finalize async")), parked)
            }
        };
        // parked: [policy processor, cache processor] in spawn order
        let mut procs: Vec<AnyProc> = Vec::new();
        let mut pols: Vec<AnyPol> = Vec::new();
        for b in parked.drain(..) {
            let b = match SProc::from_any(b) {
                Ok(p) => {
                    procs.push(AnyProc::Sync(p));
                    continue;
                }
                Err(b) => b,
            };
            let b = match AProc::from_any(b) {
                Ok(p) => {
                    procs.push(AnyProc::Async(p));
                    continue;
                }
                Err(b) => b,
            };
            let b = match SPol::from_any(b) {
                Ok(p) => {
                    pols.push(AnyPol::Sync(p));
                    continue;
                }
                Err(b) => b,
            };
            match APol::from_any(b) {
                Ok(p) => pols.push(AnyPol::Async(p)),
                Err(_) => panic!("unknown parked object"),
            }
        }
        let p = procs.pop().expect("cache processor parked");
        let item_size = if cfg.ignore_internal { 0 } else { p.item_size() };
        let clients = (0..cfg.clients)
            .map(|i| Client { actor: Actor::spawn(&format!("client{}", i + 1)), cur: None, steps: 0, blocked: None })
            .collect();
        let mut w = World {
            now_ms: cfg.start_ms,
            cfg,
            cache,
            proc_: Arc::new(Mutex::new(Some(p))),
            pol: Arc::new(Mutex::new(Some(pols.pop().expect("policy processor parked")))),
            proc_actor: Actor::spawn("processor"),
            pol_actor: Actor::spawn("policy"),
            clients,
            next_val: 1,
            t,
            item_size,
            proc_exited: false,
            pol_exited: false,
            wait_done_pending: 0,
            events: 0,
            hung: Vec::new(),
            last_out: Value::Null,
            aborted: false,
        };
        let hdr = json!({"ev":"Init","flavor":w.cfg.flavor,"bufcap":w.cfg.buf_cap,"max":w.cfg.max_cost,
            "itemsize":w.item_size,"coster":match w.cfg.coster {CosterKind::Const2=>"const2",CosterKind::Mod3=>"mod3",CosterKind::Zero=>"zero"},
            "validator":match w.cfg.validator {ValKind::Always=>"always",ValKind::Sum5=>"sum5",ValKind::Asym3=>"asym3",ValKind::Never=>"never",ValKind::Logged=>"asym3"},
            "now":w.now_ms,"clients":w.cfg.clients,"nc":w.cfg.num_counters,"bi":w.cfg.buffer_items,"metrics":w.cfg.metrics,
            "post":std::panic::catch_unwind(std::panic::AssertUnwindSafe(|| post(&w.cache))).unwrap_or(json!({"panic":true}))});
        w.t.push(hdr);
        w
    }

    fn emit(&mut self, mut ev: Value) {
        if self.aborted {
            return;
        }
        let cbs = drain_callbacks();
        ev["cbs"] = json!(cbs);
        if ev.get("out").is_none() {
            ev["out"] = json!({"t":"pending"});
        }
        if ev.get("racy").is_none() {
            ev["racy"] = json!(false);
        }
        // with metrics disabled every counter reads 0: nothing to compare
        ev["nomet"] = json!(!self.cfg.metrics);
        let lk = lock_events_json(verif::locks::drain(), false);
        if !lk.is_empty() {
            ev["locks"] = json!(lk);
        }
        // a panic of the code under test while its state is read (e.g. an estimator that cannot be
        // queried) is data: it becomes an event the specification has no step for
        match std::panic::catch_unwind(std::panic::AssertUnwindSafe(|| post(&self.cache))) {
            Ok(p) => ev["post"] = p,
            Err(e) => {
                let msg = crate::util::panic_msg(e);
                if msg.starts_with("verif:") {
                    // the observer could not get a lock the code under test never releases: the instance ends here
                    self.stalled(&format!("observer: {}", msg));
                    return;
                }
                ev = json!({"ev":"Panic","during":ev["ev"],"msg":msg,"out":{"t":"pending"},"racy":false,"nomet":true,"cbs":[]});
            }
        }
        ev["now"] = json!(self.now_ms);
        self.t.push(ev);
        self.events += 1;
    }

    pub fn client_state(&self, c: usize) -> St {
        self.clients[c].actor.state()
    }
    pub fn client_idle(&self, c: usize) -> bool {
        self.clients[c].cur.is_none()
    }
    pub fn proc_state(&self) -> St {
        self.proc_actor.state()
    }
    pub fn proc_exited(&self) -> bool {
        self.proc_exited
    }
    pub fn pol_exited(&self) -> bool {
        self.pol_exited
    }
    pub fn snapshot(&mut self) -> Snapshot<V> {
        match std::panic::catch_unwind(std::panic::AssertUnwindSafe(|| self.cache.snapshot())) {
            Ok(s) => s,
            Err(e) => {
                // the code under test holds a lock the observer needs and never releases it
                if !self.aborted {
                    let msg = crate::util::panic_msg(e);
                    self.stalled(&format!("observer: {}", msg));
                }
                Snapshot { entries: vec![], buckets: vec![], costs: vec![], used: 0, max_cost: 0, buf_len: 0, clear_len: 0,
                           stop_len: 0, ring_len: 0, pol_queue_len: 0, pol_stop_len: 0, closed: false, pol_closed: false, len: 0, tiny_w: 0 }
            }
        }
    }

    // ------------------------------------------------------------------ clients

    /// start command `cmd` on idle client c, or continue its in-flight command by one step
    /// an actor did not come back from a granted step: it is blocked inside the code under test at a place that
    /// is not a yield point.  Recorded as an event (the specification has no step for it); the instance ends here.
    fn stalled(&mut self, who: &str) {
        self.aborted = true;
        self.t.push(json!({"ev":"Stalled","who":who,"secs":sched::STALL_SECS,"out":{"t":"pending"},"racy":false,"nomet":true,"cbs":[],"now":self.now_ms}));
        self.events += 1;
    }

    pub fn step_client(&mut self, c: usize, cmd: Option<Cmd>) {
        if self.aborted {
            return;
        }
        if self.clients[c].cur.is_none() {
            let cmd = match cmd {
                Some(c) => c,
                None => return,
            };
            let v = if matches!(cmd, Cmd::Insert { .. }) {
                self.next_val += 1;
                self.next_val - 1
            } else {
                0
            };
            self.clients[c].cur = Some((cmd.clone(), v));
            self.clients[c].steps = 0;
            let cache = self.cache.clone();
            let job = make_job(cache, cmd, v);
            if !self.clients[c].actor.submit(job) {
                self.stalled(&format!("client {}", c + 1));
                return;
            }
        } else {
            // decide BEFORE the grant whether the blocking call it may enter will block
            let pre = self.snapshot();
            if self.aborted {
                return;
            }
            let is_async = self.cfg.flavor == "async";
            let pass = match self.clients[c].actor.state() {
                St::Parked("block:cls_stop") => self.proc_exited || (is_async && pre.stop_len == 0),
                St::Parked("block:pol_stop") => self.pol_exited || (is_async && pre.pol_stop_len == 0),
                St::Parked("block:wait") => self.wait_done_pending > 0,
                St::Parked("block:rem_send") => self.proc_exited || pre.buf_len < self.cfg.buf_cap,
                St::Parked(_) => false,
                _ => return, // blocked: cannot be stepped
            };
            if !self.clients[c].actor.grant() {
                self.stalled(&format!("client {}", c + 1));
                return;
            }
            // entering a blocking call that will not block: wait for it to come out
            if let St::Blocked(kind) = self.clients[c].actor.state() {
                if pass {
                    self.clients[c].actor.wait_unblocked(Duration::from_secs(if kind == "wait" { 1 } else { 10 }));
                }
            }
        }
        self.clients[c].steps += 1;
        self.record_client_step(c);
        self.settle_others();
    }

    /// name the step the client just took from (previous yield, state now)
    fn record_client_step(&mut self, c: usize) {
        let st = self.clients[c].actor.state();
        let from = if self.clients[c].steps == 1 { "start" } else { self.clients[c].actor.last_from() };
        let (cmd, v) = self.clients[c].cur.clone().unwrap();
        let cid = c + 1;
        let result = if st == St::Done { self.clients[c].actor.take_result() } else { None };
        if st == St::Done {
            self.clients[c].cur = None;
        }
        let reached = match &st {
            St::Parked(n) => n.to_string(),
            St::Blocked(n) => format!("blocked:{}", n),
            St::Done => "done".to_string(),
            x => format!("{:?}", x),
        };
        let out = typed(Some(&cmd), result.as_ref());
        // a Get also reports the remaining ttl seen through the ValueRef
        let vttl = match (&cmd, result.as_ref()) {
            (Cmd::Get { .. }, Some(Value::Array(a))) if a.len() == 3 => a[2].clone(),
            _ => Value::Null,
        };
        let ev = match (&cmd, from) {
            (Cmd::Insert { k, cost, ttl, only }, "start") => json!({"ev":"InsBegin","c":cid,"k":key_pair(*k),"v":v,"cost":cost,"d":ttl,"only":only}),
            (Cmd::Insert { .. }, "ins_send") => json!({"ev":"InsSend","c":cid}),
            (Cmd::Remove { k }, "start") => json!({"ev":"RemStore","c":cid,"k":key_pair(*k)}),
            (Cmd::Remove { .. }, "rem_send") => json!({"ev":"RemSend","c":cid}),
            (Cmd::Remove { .. }, "block:rem_send") => match &st {
                St::Blocked(_) => json!({"ev":"RemBlock","c":cid}),
                _ => json!({"ev":"RemSendA","c":cid}),
            },
            (Cmd::Remove { .. }, "unblock:rem_send") => json!({"ev":"RemRet","c":cid}),
            (Cmd::Get { k }, "start") => json!({"ev":"Get","c":cid,"k":key_pair(*k)}),
            (Cmd::GetMut { k }, "start") => json!({"ev":"GetMut","c":cid,"k":key_pair(*k)}),
            (Cmd::GetTtl { k }, "start") => json!({"ev":"GetTtl","c":cid,"k":key_pair(*k)}),
            (Cmd::Clear, "start") => json!({"ev":"ClrSend","c":cid,"op":"clear"}),
            (Cmd::Close, "start") => json!({"ev":"ClrSend","c":cid,"op":"close"}),
            (Cmd::Clear | Cmd::Close, "clr_policy") => json!({"ev":"ClrPolicy","c":cid}),
            (Cmd::Clear | Cmd::Close, "clr_store") => json!({"ev":"ClrStore","c":cid}),
            (Cmd::Clear | Cmd::Close, "clr_metrics") => json!({"ev":"ClrMetrics","c":cid}),
            (Cmd::Close, "block:cls_stop") => json!({"ev":"ClsStopSend","c":cid}),
            (Cmd::Close, "unblock:cls_stop") => json!({"ev":"ClsPol","c":cid}),
            (Cmd::Close, "block:pol_stop") => json!({"ev":"ClsPolSend","c":cid}),
            (Cmd::Close, "unblock:pol_stop") => json!({"ev":"ClsPolFlag","c":cid}),
            (Cmd::Close, "cls_flag") => json!({"ev":"ClsFlag","c":cid}),
            (Cmd::Wait, "start") => json!({"ev":"WaitSend","c":cid}),
            (Cmd::Wait, "block:wait") => json!({"ev":"WaitBlock","c":cid}),
            (Cmd::SetMax { m }, "start") => json!({"ev":"SetMax","c":cid,"m":m}),
            (Cmd::Observe, "start") => json!({"ev":"Observe","c":cid}),
            (cmd, from) => json!({"ev":"Unknown","c":cid,"cmd":format!("{:?}", cmd),"from":from}),
        };
        let mut ev = ev;
        ev["reached"] = json!(reached);
        if st == St::Done {
            self.last_out = out.clone();
        }
        ev["out"] = out;
        self.clients[c].blocked = match &st {
            St::Blocked(k) => Some(*k),
            _ => None,
        };
        if !vttl.is_null() {
            ev["vttl"] = vttl;
        }
        if st == St::Done && matches!(cmd, Cmd::Wait) && from != "start" {
            // returned from wg.wait()
            if self.wait_done_pending > 0 {
                self.wait_done_pending -= 1;
            }
        }
        self.emit(ev);
    }

    /// after any step: blocked clients may have been released by it
    fn settle_others(&mut self) {
        let rel = self.collect_releases(false);
        for (c, kind) in rel {
            self.record_release(c, kind);
        }
    }

    /// wait for the releases this step must have caused; returns (client, blocking call) pairs
    fn collect_releases(&mut self, popped: bool) -> Vec<(usize, &'static str)> {
        let mut out = Vec::new();
        // a pop from the full async buffer lets exactly one blocked sender in
        let mut popped = popped;
        for c in 0..self.clients.len() {
            let kind = match (self.clients[c].cur.is_some(), self.clients[c].blocked) {
                (true, Some(k)) => k,
                _ => continue,
            };
            if let St::Blocked(_) = self.clients[c].actor.state() {
                let expect_release = match kind {
                    "cls_stop" => self.proc_exited,
                    "pol_stop" => self.pol_exited,
                    "wait" => self.wait_done_pending > 0,
                    "rem_send" => popped || self.proc_exited || self.snapshot().buf_len < self.cfg.buf_cap,
                    _ => false,
                };
                if !expect_release {
                    continue;
                }
                if kind == "rem_send" {
                    popped = false;
                }
                let long = kind != "wait";
                let mut released = false;
                if kind == "rem_send" && !self.proc_exited {
                    // several clients may be blocked on the full buffer: the channel lets in the one that blocked first,
                    // which need not be this one -- wait until ANY of them gets through
                    let group: Vec<usize> = (0..self.clients.len())
                        .filter(|&x| self.clients[x].cur.is_some() && self.clients[x].blocked == Some("rem_send"))
                        .collect();
                    let t0 = std::time::Instant::now();
                    let mut other = false;
                    while !released && !other && t0.elapsed() < Duration::from_secs(20) {
                        for &x in group.iter() {
                            if self.clients[x].actor.wait_unblocked(Duration::from_millis(2)) {
                                if x == c {
                                    released = true;
                                } else {
                                    other = true;
                                }
                                break;
                            }
                        }
                    }
                    if other {
                        // the slot went to a client later in this loop (or already visited: it is picked up by the next step)
                        popped = true;
                        continue;
                    }
                } else {
                    released = self.clients[c].actor.wait_unblocked(if long { Duration::from_secs(20) } else { Duration::from_millis(60) });
                }
                if !released {
                    if long {
                        eprintln!("HARNESS: client {} still blocked in {} although it should have been released", c + 1, kind);
                    }
                    continue;
                }
            }
            self.clients[c].blocked = None;
            out.push((c, kind));
        }
        out
    }

    fn record_release(&mut self, c: usize, kind: &'static str) {
        let st = self.clients[c].actor.state();
        let cid = c + 1;
        let result = if st == St::Done { self.clients[c].actor.take_result() } else { None };
        if st == St::Done {
            self.clients[c].cur = None;
        }
        let out = typed(None, result.as_ref());
        let reached = match &st {
            St::Parked(n) => n.to_string(),
            St::Done => "done".to_string(),
            x => format!("{:?}", x),
        };
        let name = match (kind, &st) {
            ("wait", _) => {
                if self.wait_done_pending > 0 {
                    self.wait_done_pending -= 1;
                }
                "WaitRet"
            }
            ("cls_stop", St::Done) => "ClsStopFail",
            ("cls_stop", _) => "ClsStopLate",
            ("pol_stop", St::Done) => "ClsPolFail",
            ("pol_stop", _) => "ClsPolLate",
            ("rem_send", _) => "RemSendA",
            _ => "Released",
        };
        self.emit(json!({"ev":name,"c":cid,"reached":reached,"out":out}));
    }

    // ------------------------------------------------------------------ processor

    pub fn proc_parked(&self) -> bool {
        matches!(self.proc_actor.state(), St::Parked(_))
    }

    /// one step of the cache processor: continue a handler parked at an internal yield, or start
    /// a loop iteration with select! arm `b`
    pub fn step_proc(&mut self, b: Branch) {
        if self.proc_exited || self.aborted {
            return;
        }
        verif::drain_events();
        // a sender blocked on a full async buffer may slip its item in right after a pop
        let racy = self.clients.iter().any(|c| c.cur.is_some() && c.blocked == Some("rem_send"));
        let from: &'static str;
        match self.proc_actor.state() {
            St::Parked(_) => {
                if !self.proc_actor.grant() {
                    self.stalled("cache processor");
                    return;
                }
                from = self.proc_actor.last_from();
            }
            St::Idle => {
                let p = self.proc_.clone();
                if !self.proc_actor.submit(Box::new(move || {
                    let mut g = p.lock();
                    let r = match g.as_mut() {
                        Some(pr) => pr.step(b),
                        None => Stepped::Exited,
                    };
                    json!(format!("{:?}", r))
                })) {
                    self.stalled("cache processor");
                    return;
                }
                from = "start";
            }
            _ => return,
        }
        let st = self.proc_actor.state();
        let result = if st == St::Done { self.proc_actor.take_result() } else { None };
        let evs = verif::drain_events();
        let mut add: Option<Value> = None;
        let mut rounds = Vec::new();
        let mut wait_done = 0;
        let mut ckey: Option<i64> = None;
        for e in evs {
            match e {
                Event::Add { key, cost, added, victims, path } => {
                    add = Some(json!({"k":key,"cost":cost,"added":added,"path":path,
                        "victims": victims.clone().unwrap_or_default().iter().map(|(k, c)| json!([k, c])).collect::<Vec<_>>(),
                        "hasv": victims.is_some()}));
                }
                Event::Round { inc_hits, room, sample, min_key, min_hits, rejected, .. } => {
                    rounds.push(json!({"inc_hits":inc_hits,"room":room,"min_key":min_key,"min_hits":min_hits,"rejected":rejected,
                        "sample":sample.iter().map(|(k, c, h)| json!([k, c, h])).collect::<Vec<_>>()}));
                }
                Event::WaitDone => wait_done += 1,
                Event::Note("cleanup_key", k) => ckey = Some(k),
                _ => {}
            }
        }
        self.wait_done_pending += wait_done;
        let reached = match &st {
            St::Parked(n) => n.to_string(),
            St::Done => "done".to_string(),
            x => format!("{:?}", x),
        };
        if let Some(pm) = result.as_ref().and_then(|v| v.get("panic")) {
            // the handler panicked: in the real loop this kills the processor thread.  Recorded as an event the
            // specification has no step for; the processor is gone from here on.
            self.emit(json!({"ev":"Panic","during":format!("processor, branch {:?}, from {}", b, from),"msg":pm}));
            self.proc_exited = true;
            *self.proc_.lock() = None;
            return;
        }
        let res_s = result.as_ref().and_then(|v| v.as_str().map(|s| s.to_string())).unwrap_or_default();
        let name: String = match (from, reached.as_str()) {
            ("start", _) if res_s == "NotReady" => "Skip".into(),
            ("start", _) if res_s == "Exited" => "PStop".into(),
            ("start", "new_store") => "PNewAdd".into(),
            ("start", "del_policy") => "PDel".into(),
            ("start", "clean_item") => "PClrTake".into(),
            ("start", "cleanup_key") | ("start", "cleanup_done") => "PTick".into(),
            ("start", "done") if b == Branch::Insert && wait_done > 0 => "PWait".into(),
            ("start", "done") if b == Branch::Insert => "PUpd".into(),
            ("new_store", _) => "PNewStore".into(),
            ("victim", _) => "PVictim".into(),
            ("del_policy", _) => "PDelPolicy".into(),
            ("clean_item", "clean_item") => "PCleanItem".into(),
            ("clean_item", "done") => "PCleanEnd".into(),
            ("cleanup_key", _) => "PCleanupKey".into(),
            ("cleanup_done", _) => "PCleanupDone".into(),
            (f, r) => format!("PUnknown:{}:{}", f, r),
        };
        let mut ev = json!({"ev":name,"reached":reached,"res":res_s,"branch":format!("{:?}", b)});
        if let Some(a) = add {
            ev["add"] = a;
            ev["rounds"] = json!(rounds);
        }
        if name == "PCleanupKey" {
            // the key whose step just ran was announced when the previous yield was passed
            ev["k"] = json!(ckey.unwrap_or(-1));
        }
        if name == "PCleanItem" {
            ev["waitdone"] = json!(wait_done);
        }
        if res_s == "Exited" {
            self.proc_exited = true;
            // the real loop returns here: the processor object (and its receivers) is dropped
            *self.proc_.lock() = None;
        }
        if res_s.starts_with("Failed") {
            ev["failed"] = json!(res_s);
        }
        // a closer released by the stop rendezvous parks at "unblock:cls_stop": part of this very step
        if name == "PStop" {
            let mut released: Option<usize> = None;
            for c in 0..self.clients.len() {
                if let St::Blocked("cls_stop") = self.clients[c].actor.state() {
                    // every blocked closer is released now (sync: one Ok, the others Err)
                    self.clients[c].actor.wait_unblocked(Duration::from_secs(20));
                }
            }
            if self.cfg.flavor == "sync" {
                for c in 0..self.clients.len() {
                    if self.clients[c].cur.is_some() && self.clients[c].blocked == Some("cls_stop") {
                        if let St::Parked("unblock:cls_stop") = self.clients[c].actor.state() {
                            if released.is_none() {
                                released = Some(c + 1);
                                self.clients[c].blocked = None; // its release is part of this step
                            }
                        }
                    }
                }
            }
            ev["c"] = json!(released.unwrap_or(0));
        }
        // the item of a sender blocked on the full async buffer gets in right after a pop: take the
        // snapshot of this event after that, do not compare the buffer length for it, and record the
        // sender's step next
        let rel = if racy {
            ev["racy"] = json!(true);
            let popped = from == "start" && matches!(name.as_str(), "PNewAdd" | "PUpd" | "PDel" | "PWait") || name == "PCleanItem";
            let mut r = self.collect_releases(popped);
            r.sort_by_key(|(_, k)| if *k == "rem_send" { 0 } else { 1 });
            r
        } else {
            Vec::new()
        };
        self.emit(ev);
        for (c, kind) in rel {
            self.record_release(c, kind);
        }
        self.settle_others();
    }

    pub fn step_pol(&mut self, b: Branch) {
        if self.pol_exited || self.aborted {
            return;
        }
        let p = self.pol.clone();
        if self.pol_actor.state() != St::Idle {
            return;
        }
        if !self.pol_actor.submit(Box::new(move || {
            let mut g = p.lock();
            let r = match g.as_mut() {
                Some(pr) => pr.step(b),
                None => Stepped::Exited,
            };
            json!(format!("{:?}", r))
        })) {
            self.stalled("policy worker");
            return;
        }
        let res = self.pol_actor.take_result().and_then(|v| v.as_str().map(|s| s.to_string())).unwrap_or_default();
        let name = match (b, res.as_str()) {
            (_, "NotReady") => "Skip",
            (Branch::Stop, "Exited") => "LStop",
            (Branch::Insert, _) => "LRecv",
            _ => "LUnknown",
        };
        let mut ev = json!({"ev":name,"res":res,"branch":format!("pol{:?}", b)});
        if res == "Exited" {
            self.pol_exited = true;
            *self.pol.lock() = None;
            for c in 0..self.clients.len() {
                if let St::Blocked("pol_stop") = self.clients[c].actor.state() {
                    self.clients[c].actor.wait_unblocked(Duration::from_secs(20));
                }
            }
            let mut released = 0;
            if self.cfg.flavor == "sync" {
                for c in 0..self.clients.len() {
                    if self.clients[c].cur.is_some() && self.clients[c].blocked == Some("pol_stop") {
                        if let St::Parked("unblock:pol_stop") = self.clients[c].actor.state() {
                            if released == 0 {
                                released = c + 1;
                                self.clients[c].blocked = None;
                            }
                        }
                    }
                }
            }
            ev["c"] = json!(released);
        }
        self.emit(ev);
        self.settle_others();
    }

    /// popularity change (abstract in Cache.tla): record n accesses of harness key k in the TinyLFU
    pub fn bump(&mut self, k: u64, n: usize) {
        if self.aborted {
            return;
        }
        let (i, _) = KEYTAB[k as usize % KEYTAB.len()];
        let r = std::panic::catch_unwind(std::panic::AssertUnwindSafe(|| match &self.cache {
            AnyCache::Sync(c) => verif::bump_sync(c, i, n),
            AnyCache::Async(c) => verif::bump_async(c, i, n),
        }));
        match r {
            Ok(()) => self.emit(json!({"ev":"Bump","i":i,"n":n})),
            Err(e) => self.emit(json!({"ev":"Panic","during":"Bump","msg":crate::util::panic_msg(e)})),
        }
    }

    pub fn advance(&mut self, dt_ms: u64) {
        if self.aborted {
            return;
        }
        self.now_ms += dt_ms;
        verif::clock::set_virtual(self.now_ms * MS);
        self.emit(json!({"ev":"Advance","dt":dt_ms}));
    }

    /// run everything that can still run; report clients that stay blocked for ever
    pub fn drain(&mut self) {
        if self.aborted {
            return;
        }
        for _round in 0..2000 {
            if self.aborted {
                return;
            }
            let mut progressed = false;
            for c in 0..self.clients.len() {
                if self.clients[c].cur.is_some() {
                    if let St::Parked(_) = self.clients[c].actor.state() {
                        self.step_client(c, None);
                        progressed = true;
                    }
                }
            }
            if !self.proc_exited {
                if self.proc_parked() {
                    self.step_proc(Branch::Insert);
                    progressed = true;
                } else {
                    let s = self.snapshot();
                    if s.clear_len > 0 {
                        self.step_proc(Branch::Clear);
                        progressed = true;
                    } else if s.buf_len > 0 {
                        self.step_proc(Branch::Insert);
                        progressed = true;
                    } else if self.clients.iter().any(|c| c.cur.is_some() && c.actor.state() == St::Blocked("cls_stop")) || s.stop_len > 0 {
                        let before = self.events;
                        self.step_proc(Branch::Stop);
                        progressed = self.events > before;
                    }
                }
            }
            if !self.pol_exited && self.snapshot().pol_queue_len > 0 {
                self.step_pol(Branch::Insert);
                progressed = true;
            }
            if !self.pol_exited && self.clients.iter().any(|c| c.cur.is_some() && c.actor.state() == St::Blocked("pol_stop")) {
                self.step_pol(Branch::Stop);
                progressed = true;
            } else if !self.pol_exited && self.snapshot().pol_stop_len > 0 {
                // async: the policy stop travels through a capacity-1 channel
                self.step_pol(Branch::Stop);
                progressed = true;
            }
            if !progressed {
                break;
            }
        }
        // anything still blocked now is blocked for ever: nobody is left to release it
        if self.clients.iter().any(|c| c.cur.is_some() && matches!(c.actor.state(), St::Blocked(_))) {
            std::thread::sleep(Duration::from_millis(30));
        }
        self.settle_others();
        for c in 0..self.clients.len() {
            if self.clients[c].cur.is_some() {
                if let St::Blocked(kind) = self.clients[c].actor.state() {
                    self.hung.push(c + 1);
                    self.emit(json!({"ev":"Hung","c":c + 1,"at":kind}));
                }
            }
        }
        self.emit(json!({"ev":"End"}));
    }

    pub fn finish(self) -> (Trace, usize) {
        for c in &self.clients {
            c.actor.quit();
        }
        self.proc_actor.quit();
        self.pol_actor.quit();
        (self.t, self.events)
    }
}

fn res_str<T, E: std::fmt::Display>(r: Result<T, E>) -> Value {
    match r {
        Ok(_) => json!("ok"),
        Err(_) => json!("err"),
    }
}

/// the TTL the harness writes as HUGE_MS stands for `Duration::MAX` ("never", e.g. copied from get_ttl() of an entry
/// without TTL); the specification's integers are 32-bit, so HUGE_MS (about 23 days) represents it there
pub const HUGE_MS: u64 = 2_000_000_000;
/// bucket number i64::MAX (where a saturated deadline is filed) as the specification writes it
pub const LAST_BUCKET: i64 = 2_147_483_647;

pub fn ttl_of(ms: u64) -> Duration {
    if ms == HUGE_MS {
        Duration::MAX
    } else {
        Duration::from_millis(ms)
    }
}

fn ttl_json(t: Option<Duration>) -> Value {
    match t {
        None => Value::Null,
        Some(d) if d == Duration::MAX => json!(-1),
        // remaining time of a never-expiring TTL: Duration::MAX - elapsed, written as HUGE_MS - elapsed
        Some(d) if d.as_millis() > HUGE_MS as u128 => json!(HUGE_MS - (Duration::MAX - d).as_millis() as u64),
        Some(d) => json!(d.as_millis() as u64),
    }
}

fn make_job(cache: AnyCache, cmd: Cmd, v: u64) -> Box<dyn FnOnce() -> Value + Send + 'static> {
    Box::new(move || match cache {
        AnyCache::Sync(c) => match cmd {
            Cmd::Insert { k, cost, ttl, only } => {
                let val = V { id: v, rev: 0 };
                let r = if only {
                    c.try_insert_if_present(k, val, cost)
                } else if ttl > 0 {
                    c.try_insert_with_ttl(k, val, cost, ttl_of(ttl))
                } else {
                    c.try_insert(k, val, cost)
                };
                match r {
                    Ok(b) => json!(b),
                    Err(_) => json!("err"),
                }
            }
            Cmd::Remove { k } => res_str(c.try_remove(&k)),
            Cmd::Get { k } => match c.get(&k) {
                Some(r) => {
                    let out = json!([r.value().id, r.value().rev, ttl_json(Some(r.ttl()))]);
                    r.release();
                    out
                }
                None => Value::Null,
            },
            Cmd::GetMut { k } => match c.get_mut(&k) {
                Some(mut r) => {
                    let out = json!([r.value().id, r.value().rev]);
                    r.value_mut().rev += 1;
                    drop(r);
                    out
                }
                None => Value::Null,
            },
            Cmd::GetTtl { k } => ttl_json(c.get_ttl(&k)),
            Cmd::Clear => res_str(c.clear()),
            Cmd::Close => res_str(c.close()),
            Cmd::Wait => res_str(c.wait()),
            Cmd::SetMax { m } => {
                c.update_max_cost(m);
                json!("ok")
            }
            Cmd::Observe => json!([c.len(), c.max_cost()]),
        },
        AnyCache::Async(c) => match cmd {
            Cmd::Insert { k, cost, ttl, only } => {
                let val = V { id: v, rev: 0 };
                let r = if only {
                    bo(c.try_insert_if_present(k, val, cost))
                } else if ttl > 0 {
                    bo(c.try_insert_with_ttl(k, val, cost, ttl_of(ttl)))
                } else {
                    bo(c.try_insert(k, val, cost))
                };
                match r {
                    Ok(b) => json!(b),
                    Err(_) => json!("err"),
                }
            }
            Cmd::Remove { k } => res_str(bo(c.try_remove(&k))),
            Cmd::Get { k } => match bo(c.get(&k)) {
                Some(r) => {
                    let out = json!([r.value().id, r.value().rev, ttl_json(Some(r.ttl()))]);
                    r.release();
                    out
                }
                None => Value::Null,
            },
            Cmd::GetMut { k } => match bo(c.get_mut(&k)) {
                Some(mut r) => {
                    let out = json!([r.value().id, r.value().rev]);
                    r.value_mut().rev += 1;
                    drop(r);
                    out
                }
                None => Value::Null,
            },
            Cmd::GetTtl { k } => ttl_json(c.get_ttl(&k)),
            Cmd::Clear => res_str(bo(c.clear())),
            Cmd::Close => res_str(bo(c.close())),
            Cmd::Wait => res_str(bo(c.wait())),
            Cmd::SetMax { m } => {
                c.update_max_cost(m);
                json!("ok")
            }
            Cmd::Observe => json!([c.len(), c.max_cost()]),
        },
    })
}

// ------------------------------------------------------------------------------------------
// schedule generation: seeded random walks with per-property profiles

#[derive(Clone)]
pub struct Profile {
    pub name: &'static str,
    pub clients: usize,
    pub keys: Vec<u64>,
    pub steps: usize,
    /// weights: insert, insert_ttl, insert_if_present, remove, get, get_mut, get_ttl, clear, close, wait, set_max, observe
    pub w: [u32; 12],
    pub sequential: bool,
    pub p_advance: f64,
    pub p_tick: f64,
    pub p_bump: f64,
    pub p_pol: f64,
    pub metrics_off_sometimes: bool,
    pub buffer_items: Vec<usize>,
    pub num_counters: Vec<usize>,
    pub max_cost: (i64, i64),
    pub buf_cap: (usize, usize),
    pub costs: Vec<i64>,
    pub ttls: Vec<u64>,
    pub advances: Vec<u64>,
    pub ignore_internal: bool,
    pub validator: ValKind,
    pub coster: CosterKind,
    pub flavor: &'static str,
    /// concurrent walks: probability that client 1, parked in the middle of a call, is passed over (its calls then span
    /// many steps of the others: the long pauses between the two halves of remove / insert that random picking rarely gives)
    pub p_lag: f64,
}

fn pick_cmd(rng: &mut StdRng, p: &Profile) -> Cmd {
    let total: u32 = p.w.iter().sum();
    let mut r = rng.gen_range(0..total);
    let mut idx = 0;
    for (i, w) in p.w.iter().enumerate() {
        if r < *w {
            idx = i;
            break;
        }
        r -= w;
    }
    let k = p.keys[rng.gen_range(0..p.keys.len())];
    let cost = p.costs[rng.gen_range(0..p.costs.len())];
    match idx {
        0 => Cmd::Insert { k, cost, ttl: 0, only: false },
        1 => Cmd::Insert { k, cost, ttl: p.ttls[rng.gen_range(0..p.ttls.len())], only: false },
        2 => Cmd::Insert { k, cost, ttl: 0, only: true },
        3 => Cmd::Remove { k },
        4 => Cmd::Get { k },
        5 => Cmd::GetMut { k },
        6 => Cmd::GetTtl { k },
        7 => Cmd::Clear,
        8 => Cmd::Close,
        9 => Cmd::Wait,
        10 => Cmd::SetMax {
            // boundary values often: zero (which the builder refuses but update_max_cost takes), negative, one
            m: if rng.gen_bool(0.45) { [0i64, 0, 0, -1, 1][rng.gen_range(0..5)] } else { rng.gen_range(1..=p.max_cost.1 + 2) },
        },
        _ => Cmd::Observe,
    }
}

fn quiesce(w: &mut World) {
    for _ in 0..500 {
        if w.proc_exited() || w.aborted {
            break;
        }
        if w.proc_parked() {
            w.step_proc(Branch::Insert);
            continue;
        }
        let s = w.snapshot();
        if s.clear_len > 0 {
            w.step_proc(Branch::Clear);
        } else if s.buf_len > 0 {
            w.step_proc(Branch::Insert);
        } else {
            break;
        }
    }
}

pub fn random_walk(rng: &mut StdRng, p: &Profile, t: Trace) -> (Trace, usize, Vec<usize>) {
    let cfg = Config {
        flavor: p.flavor.to_string(),
        buf_cap: rng.gen_range(p.buf_cap.0..=p.buf_cap.1),
        // a range that starts below zero stands for "negative bounds too" (the builder refuses only zero)
        max_cost: match rng.gen_range(p.max_cost.0..=p.max_cost.1) {
            0 => -1,
            m => m,
        },
        num_counters: p.num_counters[rng.gen_range(0..p.num_counters.len())],
        buffer_items: p.buffer_items[rng.gen_range(0..p.buffer_items.len())],
        ignore_internal: p.ignore_internal,
        coster: p.coster,
        validator: p.validator,
        clients: p.clients,
        start_ms: 100_000 + rng.gen_range(0..1000),
        metrics: !p.metrics_off_sometimes || rng.gen_bool(0.6),
    };
    let mut w = World::new(cfg, t);
    for _ in 0..p.steps {
        if w.aborted {
            // an actor is stuck inside the code under test: the instance ends here
            break;
        }
        if rng.gen_bool(p.p_advance) {
            let dt = p.advances[rng.gen_range(0..p.advances.len())];
            w.advance(dt);
            continue;
        }
        if rng.gen_bool(p.p_bump) {
            let k = p.keys[rng.gen_range(0..p.keys.len())];
            let n = rng.gen_range(1..=3);
            w.bump(k, n);
            continue;
        }
        if p.sequential {
            // one public call at a time, processor drained to idle in between
            let c = rng.gen_range(0..p.clients);
            if w.client_idle(c) {
                let cmd = pick_cmd(rng, p);
                w.step_client(c, Some(cmd));
            }
            for _ in 0..20 {
                if !w.client_idle(c) && matches!(w.client_state(c), St::Parked(_)) {
                    w.step_client(c, None);
                } else if !w.client_idle(c) {
                    // blocked: let the processor work
                    quiesce(&mut w);
                    if matches!(w.client_state(c), St::Blocked("cls_stop")) {
                        w.step_proc(Branch::Stop);
                    }
                    if matches!(w.client_state(c), St::Blocked("pol_stop")) {
                        w.step_pol(Branch::Stop);
                    }
                } else {
                    break;
                }
            }
            quiesce(&mut w);
            while !w.pol_exited() && w.snapshot().pol_queue_len > 0 && rng.gen_bool(p.p_pol) {
                w.step_pol(Branch::Insert);
            }
            if rng.gen_bool(p.p_tick) && !w.proc_exited() {
                w.step_proc(Branch::Tick);
                quiesce(&mut w);
            }
            continue;
        }
        // concurrent: pick any actor that can move
        let n = p.clients + 2;
        let a = rng.gen_range(0..n + 1);
        if a < p.clients {
            if w.client_idle(a) {
                let cmd = pick_cmd(rng, p);
                w.step_client(a, Some(cmd));
            } else if a == 0 && p.p_lag > 0.0 && matches!(w.client_state(a), St::Parked(_)) && rng.gen_bool(p.p_lag) {
                continue;
            } else {
                w.step_client(a, None);
            }
        } else if a == p.clients || a == n {
            if w.proc_exited() {
                continue;
            }
            if w.proc_parked() {
                w.step_proc(Branch::Insert);
            } else {
                let s = w.snapshot();
                let mut arms = Vec::new();
                if s.buf_len > 0 {
                    arms.push(Branch::Insert);
                    arms.push(Branch::Insert);
                }
                if s.clear_len > 0 {
                    arms.push(Branch::Clear);
                }
                if rng.gen_bool(p.p_tick) {
                    arms.push(Branch::Tick);
                }
                if s.stop_len > 0 || (0..p.clients).any(|c| w.client_state(c) == St::Blocked("cls_stop")) {
                    arms.push(Branch::Stop);
                }
                if !arms.is_empty() {
                    let b = arms[rng.gen_range(0..arms.len())];
                    w.step_proc(b);
                }
            }
        } else {
            if (0..p.clients).any(|c| w.client_state(c) == St::Blocked("pol_stop")) {
                // both arms of the worker's select! may be ready: a queued batch and the closer's stop signal
                if rng.gen_bool(0.4) && w.snapshot().pol_queue_len > 0 {
                    w.step_pol(Branch::Insert);
                } else {
                    w.step_pol(Branch::Stop);
                }
            } else if w.snapshot().pol_queue_len > 0 {
                w.step_pol(Branch::Insert);
            }
        }
    }
    w.drain();
    let mut hung = w.hung.clone();
    if w.aborted {
        hung.push(usize::MAX); // marker: an actor got stuck in this instance
    }
    let (t, ev) = w.finish();
    (t, ev, hung)
}

pub fn profile(name: &str, flavor: &'static str) -> Profile {
    let base = Profile {
        name: "seq",
        clients: 1,
        keys: vec![0, 1, 2, 3, 4],
        steps: 60,
        w: [30, 0, 8, 10, 20, 3, 0, 2, 0, 2, 3, 2],
        sequential: true,
        p_advance: 0.0,
        p_tick: 0.0,
        p_bump: 0.08,
        p_pol: 0.3,
        metrics_off_sometimes: false,
        buffer_items: vec![64],
        num_counters: vec![1000],
        max_cost: (4, 12),
        buf_cap: (2, 4),
        costs: vec![0, 1, 1, 2, 3, 5],
        ttls: vec![0],
        advances: vec![1],
        ignore_internal: true,
        validator: ValKind::Always,
        coster: CosterKind::Const2,
        flavor,
        p_lag: 0.0,
    };
    match name {
        "seq" => base,
        "seq_internal" => Profile { name: "seq_internal", ignore_internal: false, max_cost: (150, 400), coster: CosterKind::Mod3, ..base },
        "seq_veto5" => Profile { name: "seq_veto5", validator: ValKind::Sum5, w: [30, 0, 15, 8, 20, 3, 0, 1, 0, 2, 0, 2], ..base },
        "seq_veto" => Profile { name: "seq_veto", validator: ValKind::Asym3, w: [30, 0, 15, 8, 20, 3, 0, 1, 0, 2, 0, 2], ..base },
        "ttl" => Profile {
            name: "ttl",
            w: [10, 30, 5, 8, 15, 10, 15, 2, 0, 1, 0, 2],
            p_advance: 0.35,
            p_tick: 0.5,
            ttls: vec![1, 300, 500, 999, 1000, 1001, 1500, 2500, 3_600_000, HUGE_MS],
            advances: vec![1, 100, 250, 499, 500, 501, 999, 1000, 1001, 2000],
            max_cost: (40, 60),
            keys: vec![0, 2, 3, 4, 5, 9],
            steps: 90,
            ..base
        },
        "ttl_fine" => Profile {
            name: "ttl_fine",
            w: [6, 40, 4, 6, 20, 6, 25, 1, 0, 1, 0, 1],
            p_advance: 0.45,
            p_tick: 0.3,
            ttls: vec![1, 2, 10, 998, 999, 1000, 1001, 1002, 1999, 2000, 2001],
            advances: vec![1, 1, 2, 9, 10, 997, 998, 999, 1000, 1001, 1002],
            max_cost: (40, 60),
            keys: vec![3, 4, 5],
            steps: 110,
            ..base
        },
        "ring" => Profile {
            name: "ring",
            clients: 2,
            sequential: false,
            steps: 220,
            keys: vec![0, 3, 4, 5],
            w: [8, 0, 0, 3, 60, 8, 0, 1, 0, 1, 0, 0],
            buffer_items: vec![0, 1, 2, 3, 5],
            p_bump: 0.0,
            max_cost: (10, 20),
            ..base
        },
        "ring_close" => Profile {
            name: "ring_close",
            clients: 2,
            sequential: false,
            steps: 120,
            keys: vec![0, 3],
            w: [6, 0, 0, 2, 50, 6, 0, 2, 6, 1, 0, 0],
            buffer_items: vec![1, 2, 3],
            p_bump: 0.0,
            max_cost: (10, 20),
            ..base
        },
        "cfg" => Profile {
            name: "cfg",
            keys: vec![0, 2, 3, 4, 5, 6],
            steps: 45,
            w: [24, 14, 4, 8, 30, 3, 4, 1, 0, 2, 1, 1],
            p_advance: 0.12,
            p_tick: 0.4,
            p_pol: 0.8,
            ttls: vec![300, 1000, 1500, HUGE_MS],
            advances: vec![400, 1000, 1600],
            buffer_items: vec![0, 1, 2, 64],
            num_counters: (1..=70).collect(),
            metrics_off_sometimes: true,
            max_cost: (-1, 8),
            buf_cap: (1, 2),
            ..base
        },
        "below" => Profile {
            name: "below",
            keys: vec![3, 4, 5, 6, 7],
            w: [34, 0, 8, 12, 24, 4, 0, 3, 0, 2, 0, 2],
            max_cost: (40, 60),
            costs: vec![0, 1, 2, 3, 5],
            p_bump: 0.05,
            steps: 90,
            ..base
        },
        "below_ttl" => Profile {
            name: "below_ttl",
            keys: vec![3, 4, 5, 6, 7, 2],
            w: [14, 26, 6, 10, 22, 3, 8, 3, 0, 2, 0, 2],
            p_advance: 0.3,
            p_tick: 0.45,
            ttls: vec![300, 999, 1000, 1001, 1500, 2500, 3_600_000],
            advances: vec![100, 499, 500, 501, 999, 1000, 1001, 2000, 2500],
            max_cost: (40, 60),
            costs: vec![0, 1, 2, 3, 5],
            p_bump: 0.05,
            steps: 110,
            ..base
        },
        "ttl_conc" => Profile {
            name: "ttl_conc",
            clients: 2,
            sequential: false,
            w: [12, 30, 4, 8, 14, 4, 10, 1, 0, 3, 0, 1],
            p_advance: 0.2,
            p_tick: 0.35,
            ttls: vec![300, 500, 999, 1000, 1001, 1500, 2500],
            advances: vec![100, 250, 499, 500, 501, 999, 1000, 1001, 2000],
            max_cost: (40, 60),
            keys: vec![0, 3, 4, 5],
            steps: 160,
            buf_cap: (2, 4),
            ..base
        },
        "ttl_clear" => Profile {
            name: "ttl_clear",
            w: [10, 30, 3, 6, 15, 2, 10, 10, 0, 1, 0, 2],
            p_advance: 0.35,
            p_tick: 0.5,
            ttls: vec![300, 999, 1000, 1500, 2500, 3_600_000],
            advances: vec![100, 499, 500, 999, 1000, 1001, 2000],
            max_cost: (40, 60),
            keys: vec![0, 3, 4],
            steps: 100,
            ..base
        },
        "cond" => Profile {
            name: "cond",
            validator: ValKind::Asym3,
            w: [14, 8, 30, 12, 16, 2, 6, 1, 0, 2, 0, 1],
            p_advance: 0.15,
            p_tick: 0.3,
            ttls: vec![500, 1500],
            advances: vec![400, 700, 1100],
            sequential: false,
            clients: 2,
            keys: vec![0, 3, 4],
            steps: 140,
            max_cost: (20, 30),
            ..base
        },
        "cond_internal" => Profile {
            name: "cond_internal",
            validator: ValKind::Asym3,
            w: [14, 8, 30, 12, 16, 2, 6, 1, 0, 2, 0, 1],
            p_advance: 0.15,
            p_tick: 0.3,
            ttls: vec![500, 1500],
            advances: vec![400, 700, 1100],
            keys: vec![0, 3, 4],
            steps: 110,
            ignore_internal: false,
            coster: CosterKind::Mod3,
            max_cost: (150, 400),
            ..base
        },
        "seq_coster0" => Profile { name: "seq_coster0", coster: CosterKind::Zero, ignore_internal: false, max_cost: (150, 400), costs: vec![0, 0, 1, 7], ..base },
        "coll" => Profile {
            name: "coll",
            keys: vec![0, 1, 9, 10, 2],
            w: [30, 6, 8, 14, 20, 4, 6, 1, 0, 2, 0, 1],
            p_advance: 0.1,
            p_tick: 0.3,
            ttls: vec![500, 1500],
            advances: vec![400, 700, 1100],
            max_cost: (6, 12),
            ..base
        },
        "coll_lag" => Profile {
            name: "coll_lag",
            clients: 2,
            sequential: false,
            steps: 260,
            keys: vec![0, 1],
            w: [40, 0, 4, 42, 8, 0, 0, 0, 0, 5, 0, 1],
            buf_cap: (2, 4),
            max_cost: (6, 12),
            costs: vec![1, 2],
            p_bump: 0.0,
            p_lag: 0.85,
            ..base
        },
        "coll_conc" => Profile {
            name: "coll_conc",
            clients: 2,
            sequential: false,
            steps: 140,
            keys: vec![0, 1, 9, 10],
            w: [30, 0, 8, 14, 18, 3, 0, 0, 0, 5, 0, 1],
            buf_cap: (1, 3),
            max_cost: (3, 8),
            ..base
        },
        "conc" => Profile {
            name: "conc",
            clients: 2,
            sequential: false,
            steps: 120,
            keys: vec![0, 1, 3, 4],
            w: [30, 0, 6, 12, 14, 2, 0, 0, 0, 6, 2, 1],
            buf_cap: (1, 3),
            max_cost: (3, 8),
            ..base
        },
        "conc_clear" => Profile {
            name: "conc_clear",
            clients: 2,
            sequential: false,
            steps: 120,
            keys: vec![0, 3, 4],
            w: [30, 0, 5, 10, 12, 0, 0, 8, 0, 8, 0, 1],
            buf_cap: (1, 3),
            max_cost: (3, 8),
            ..base
        },
        "evict" => Profile {
            name: "evict",
            clients: 2,
            sequential: false,
            steps: 140,
            keys: vec![0, 3, 4, 5, 6, 7, 8],
            w: [50, 0, 4, 6, 8, 0, 0, 0, 0, 4, 4, 1],
            buf_cap: (2, 4),
            max_cost: (5, 9),
            costs: vec![1, 1, 2, 3, 5, 6],
            p_bump: 0.2,
            ..base
        },
        "life" => Profile {
            name: "life",
            clients: 3,
            sequential: false,
            steps: 90,
            keys: vec![0, 3],
            w: [20, 0, 3, 8, 8, 0, 0, 4, 8, 12, 0, 1],
            buf_cap: (1, 2),
            max_cost: (3, 8),
            ..base
        },
        _ => base,
    }
}

/// builder validation: the real finalize() on accepted and rejected parameter combinations
fn finalize_events(t: &mut Trace, flavor: &str) {
    for nc in [0usize, 1, 7] {
        for max in [-5i64, 0, 1] {
            for buf in [0usize, 1, 2] {
                let res = if flavor == "sync" {
                    match CacheBuilder::<u64, u64>::new(nc, max).set_buffer_size(buf).finalize() {
                        Ok(c) => {
                            let _ = c.close();
                            "ok".to_string()
                        }
                        Err(e) => format!("{:?}", e),
                    }
                } else {
                    match AsyncCacheBuilder::<u64, u64>::new(nc, max).set_buffer_size(buf).finalize(|f| {
                        std::thread::spawn(move || futures::executor::block_on(f));
                    }) {
                        Ok(c) => {
                            let _ = bo(c.close());
                            "ok".to_string()
                        }
                        Err(e) => format!("{:?}", e),
                    }
                };
                t.push(json!({"ev":"Finalize","nc":nc,"max":max,"bufsize":buf,"res":res,"flavor":flavor}));
            }
        }
    }
}

fn key_of(i: u64, f: u64) -> Option<u64> {
    KEYTAB.iter().position(|p| *p == (i, f)).map(|p| p as u64)
}

/// execute one TLC-generated schedule (SIM_Cache.tla) on the real cache; steps that are not
/// executable in the state the real code is in are skipped
fn run_schedule(sched: &Value, flavor: &'static str, t: Trace) -> (Trace, usize, usize, usize) {
    let steps = sched.as_array().cloned().unwrap_or_default();
    let conf = steps.first().cloned().unwrap_or(json!({}));
    let cfg = Config {
        flavor: flavor.to_string(),
        buf_cap: conf["bufcap"].as_u64().unwrap_or(2) as usize,
        max_cost: conf["max"].as_i64().unwrap_or(3),
        num_counters: 1000,
        buffer_items: 64,
        ignore_internal: true,
        coster: CosterKind::Const2,
        validator: ValKind::Always,
        clients: 2,
        start_ms: 100_000,
        metrics: true,
    };
    let unit = 250u64; // SIM_Cache: SecUnits = 4
    let mut w = World::new(cfg, t);
    let (mut done, mut skipped) = (0usize, 0usize);
    for st in steps.iter().skip(1) {
        let a = st["a"].as_str().unwrap_or("");
        let c = st["c"].as_u64().unwrap_or(1) as usize - 1;
        let key = key_of(st["i"].as_u64().unwrap_or(0), st["f"].as_u64().unwrap_or(0));
        let before = w.events;
        let start = |w: &mut World, cmd: Cmd| {
            if c < 2 && w.client_idle(c) {
                w.step_client(c, Some(cmd));
            }
        };
        match (a, key) {
            ("insert", Some(k)) => start(&mut w, Cmd::Insert { k, cost: st["cost"].as_i64().unwrap_or(1), ttl: st["d"].as_u64().unwrap_or(0) * unit, only: false }),
            ("insert_if_present", Some(k)) => start(&mut w, Cmd::Insert { k, cost: st["cost"].as_i64().unwrap_or(1), ttl: 0, only: true }),
            ("remove", Some(k)) => start(&mut w, Cmd::Remove { k }),
            ("get", Some(k)) => start(&mut w, Cmd::Get { k }),
            ("get_mut", Some(k)) => start(&mut w, Cmd::GetMut { k }),
            ("get_ttl", Some(k)) => start(&mut w, Cmd::GetTtl { k }),
            ("clear", _) => start(&mut w, Cmd::Clear),
            ("close", _) => start(&mut w, Cmd::Close),
            ("wait", _) => start(&mut w, Cmd::Wait),
            ("set_max", _) => start(&mut w, Cmd::SetMax { m: st["m"].as_i64().unwrap_or(1) }),
            ("cstep", _) => {
                if c < 2 && !w.client_idle(c) {
                    w.step_client(c, None);
                }
            }
            ("proc", _) => {
                if !w.proc_exited() {
                    let b = match st["b"].as_str().unwrap_or("") {
                        "insert" => Some(Branch::Insert),
                        "clear" => Some(Branch::Clear),
                        "tick" => Some(Branch::Tick),
                        "stop" => Some(Branch::Stop),
                        _ => None,
                    };
                    if w.proc_parked() {
                        w.step_proc(Branch::Insert);
                    } else if let Some(b) = b {
                        w.step_proc(b);
                    }
                }
            }
            ("pol", _) => w.step_pol(Branch::Stop),
            ("adv", _) => w.advance(st["dt"].as_u64().unwrap_or(1) * unit),
            _ => {}
        }
        if w.events > before {
            done += 1;
        } else {
            skipped += 1;
        }
    }
    w.drain();
    let hung = if w.aborted { usize::MAX } else { w.hung.len() };
    let (t, _) = w.finish();
    (t, done, skipped, hung)
}

pub fn run(o: &Opts) -> i32 {
    let seed = o.u64("seed", 1);
    let out = o.str("out", "/verif/work/cache.ndjson");
    // lock level: every acquisition / release of the crate's locks is attached to the step during which it happened
    verif::locks::enable(o.flag("locks"));
    if let Some(sf) = o.get("sched") {
        let flavor: &'static str = if o.str("flavor", "sync") == "async" { "async" } else { "sync" };
        sched::install();
        if flavor == "async" {
            sched::set_pass_through(&["open_checked", "rem_send"]);
        } else {
            sched::set_pass_through(&["open_checked"]);
        }
        verif::events_enable(true);
        std::panic::set_hook(Box::new(|_| {}));
        let mut t = Trace::create(&out);
        let (mut n, mut done, mut skipped, mut hung) = (0, 0, 0, 0);
        let mut stalls = 0;
        for line in std::fs::read_to_string(sf).unwrap_or_default().lines() {
            if let Ok(v) = serde_json::from_str::<Value>(line) {
                let (t2, d, s, h) = run_schedule(&v, flavor, t);
                t = t2;
                n += 1;
                done += d;
                skipped += s;
                if h == usize::MAX {
                    stalls += 1;
                    if stalls >= 3 {
                        break;
                    }
                } else {
                    hung += h;
                }
            }
        }
        let lines = t.finish();
        let mut stats: HashMap<String, u64> = HashMap::new();
        if let Ok(s) = std::fs::read_to_string(&out) {
            for l in s.lines() {
                if let Ok(v) = serde_json::from_str::<Value>(l) {
                    if let Some(e) = v["ev"].as_str() {
                        *stats.entry(e.to_string()).or_insert(0) += 1;
                    }
                }
            }
        }
        println!("{}", json!({"instances":n,"lines":lines,"events":lines,"steps_executed":done,"steps_skipped":skipped,"hung":hung,"out":out,"flavor":flavor,"hist":stats}));
        return 0;
    }
    let prof = o.str("profile", "seq");
    let flavor: &'static str = if o.str("flavor", "sync") == "async" { "async" } else { "sync" };
    let n = o.u64("n", 20) as usize;
    sched::install();
    if flavor == "async" {
        sched::set_pass_through(&["open_checked", "rem_send"]);
    } else {
        sched::set_pass_through(&["open_checked"]);
    }
    verif::events_enable(true);
    std::panic::set_hook(Box::new(|_| {}));
    let mut rng = StdRng::seed_from_u64(seed ^ 0xcac4e ^ (prof.len() as u64) << 32);
    let p = profile(&prof, flavor);
    let mut t = Trace::create(&out);
    if prof == "cfg" {
        finalize_events(&mut t, flavor);
    }
    let mut events = 0;
    let mut hung_total = 0;
    let mut stalls = 0;
    let mut stats: HashMap<String, u64> = HashMap::new();
    for j in 0..n {
        let mut p = p.clone();
        if prof == "cfg" {
            // every num_counters from 1 upward in turn, small and non-power-of-two ones included
            p.num_counters = vec![j % 70 + 1];
        }
        let (t2, ev, hung) = random_walk(&mut rng, &p, t);
        t = t2;
        events += ev;
        hung_total += hung.len();
        if hung.contains(&usize::MAX) {
            stalls += 1;
            if stalls >= 3 {
                // every further instance would cost another stall timeout: three recorded cases are enough
                break;
            }
        }
    }
    let lines = t.finish();
    // event histogram
    if let Ok(s) = std::fs::read_to_string(&out) {
        for l in s.lines() {
            if let Ok(v) = serde_json::from_str::<Value>(l) {
                if let Some(e) = v["ev"].as_str() {
                    *stats.entry(e.to_string()).or_insert(0) += 1;
                }
            }
        }
    }
    println!("{}", json!({"instances":n,"lines":lines,"events":events,"hung":hung_total,"out":out,"profile":prof,"flavor":flavor,"hist":stats}));
    0
}
