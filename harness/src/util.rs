use std::collections::HashMap;
use std::fs::File;
use std::io::{BufWriter, Write};

pub struct Opts(pub HashMap<String, String>);

impl Opts {
    pub fn get(&self, k: &str) -> Option<&str> {
        self.0.get(k).map(|s| s.as_str())
    }
    pub fn str(&self, k: &str, d: &str) -> String {
        self.get(k).unwrap_or(d).to_string()
    }
    pub fn u64(&self, k: &str, d: u64) -> u64 {
        self.get(k).and_then(|s| s.parse().ok()).unwrap_or(d)
    }
    pub fn flag(&self, k: &str) -> bool {
        self.get(k).map(|s| s == "true" || s == "1").unwrap_or(false)
    }
    pub fn thorough(&self) -> bool {
        self.str("tier", "quick") == "thorough"
    }
}

/// ndjson trace writer
pub struct Trace {
    w: BufWriter<File>,
    pub lines: usize,
}

impl Trace {
    pub fn create(path: &str) -> Self {
        if let Some(p) = std::path::Path::new(path).parent() {
            let _ = std::fs::create_dir_all(p);
        }
        Trace {
            w: BufWriter::new(File::create(path).expect("create trace file")),
            lines: 0,
        }
    }
    pub fn push(&mut self, v: serde_json::Value) {
        serde_json::to_writer(&mut self.w, &v).unwrap();
        self.w.write_all(b"\n").unwrap();
        self.lines += 1;
    }
    pub fn finish(mut self) -> usize {
        self.w.flush().unwrap();
        self.lines
    }
}

pub fn panic_msg(e: Box<dyn std::any::Any + Send>) -> String {
    if let Some(s) = e.downcast_ref::<&str>() {
        s.to_string()
    } else if let Some(s) = e.downcast_ref::<String>() {
        s.clone()
    } else {
        "panic".to_string()
    }
}

/// a 64-bit hash as three limbs (21 + 21 + 22 bits) so that TLC (32-bit integers) can recompute
/// everything the code derives from it
pub fn limbs(h: u64) -> [u64; 3] {
    [h >> 43, (h >> 22) & 0x1f_ffff, h & 0x3f_ffff]
}
