//! `vh policy`: drive the real LFUPolicy (sampled-LFU costs + TinyLFU admission) through
//! the facade and record every call, every round of the eviction loop and the resulting
//! policy state (C01, C07).
use crate::util::{Opts, Trace};
use rand::rngs::StdRng;
use rand::{Rng, SeedableRng};
use serde_json::{json, Value};
use stretto::verif::{self, Event, SyncPolicy};

fn post<S: std::hash::BuildHasher + Clone + 'static>(p: &SyncPolicy<S>) -> Value {
    let (costs, used, max, _w) = p.costs();
    json!({"costs": costs.iter().map(|(k, c)| json!([k, c])).collect::<Vec<_>>(), "used": used, "max": max})
}

/// statistics about which branches of the rule were crossed
#[derive(Default)]
pub struct Cov {
    pub adds: u64,
    pub room: u64,
    pub present: u64,
    pub oversize: u64,
    pub evicted: u64,
    pub rejected: u64,
    pub multi_victim: u64,
    pub reject_after_evict: u64,
    pub ties: u64,
    pub small_sample: u64,
    pub over_budget_before_add: u64,
    pub rounds: u64,
}

fn do_add(t: &mut Trace, p: &SyncPolicy, k: u64, cost: i64, cov: &mut Cov) {
    let (_, used0, max0, _) = p.costs();
    verif::drain_events();
    let (victims, added) = p.add(k, cost);
    let evs = verif::drain_events();
    let mut rounds = Vec::new();
    let mut path = "?";
    for e in evs {
        match e {
            Event::Round { incoming: _, inc_hits, room, sample, min_key, min_hits, rejected } => {
                let hits: Vec<i64> = sample.iter().map(|s| s.2).collect();
                if hits.iter().filter(|h| **h == min_hits).count() > 1 {
                    cov.ties += 1;
                }
                if sample.len() < 5 {
                    cov.small_sample += 1;
                }
                cov.rounds += 1;
                rounds.push(json!({"inc_hits": inc_hits, "room": room,
                    "sample": sample.iter().map(|(k, c, h)| json!([k, c, h])).collect::<Vec<_>>(),
                    "min_key": min_key, "min_hits": min_hits, "rejected": rejected}));
            }
            Event::Add { path: pth, .. } => path = pth,
            _ => {}
        }
    }
    cov.adds += 1;
    match path {
        "room" => cov.room += 1,
        "present" => cov.present += 1,
        "oversize" => cov.oversize += 1,
        "evicted" => cov.evicted += 1,
        "rejected" => cov.rejected += 1,
        _ => {}
    }
    if let Some(v) = &victims {
        if v.len() >= 2 && added {
            cov.multi_victim += 1;
        }
        if !v.is_empty() && !added {
            cov.reject_after_evict += 1;
        }
    }
    if used0 > max0 {
        cov.over_budget_before_add += 1;
    }
    let vj = match &victims {
        None => json!([]),
        Some(v) => json!(v.iter().map(|(k, c)| json!([k, c])).collect::<Vec<_>>()),
    };
    t.push(json!({"ev":"add","k":k,"cost":cost,"added":added,"victims":vj,"hasv":victims.is_some(),"path":path,"rounds":rounds,"post":post(p)}));
}

fn instance(t: &mut Trace, rng: &mut StdRng, max: i64, nkeys: u64, ops: usize, cov: &mut Cov) {
    let ctrs = *[8usize, 64, 1000].get(rng.gen_range(0..3)).unwrap();
    let (p, _proc) = SyncPolicy::new(ctrs, max).expect("policy");
    t.push(json!({"ev":"new","max":max,"ctrs":ctrs}));
    let style = rng.gen_range(0..4);
    for _ in 0..ops {
        let r = rng.gen_range(0..100);
        let k = rng.gen_range(1..=nkeys);
        let small = rng.gen_range(0..=3.min(max.max(1)));
        let big = rng.gen_range(0..=max.max(1) + 2);
        let cost = match style {
            0 => small,
            1 => big,
            2 => if rng.gen_bool(0.7) { 1 } else { big },
            _ => if rng.gen_bool(0.5) { small } else { big },
        };
        if r < 55 {
            do_add(t, &p, k, cost, cov);
        } else if r < 65 {
            p.update(k, cost);
            t.push(json!({"ev":"update","k":k,"cost":cost,"post":post(&p)}));
        } else if r < 72 {
            p.remove(k);
            t.push(json!({"ev":"remove","k":k,"post":post(&p)}));
        } else if r < 74 {
            p.clear();
            t.push(json!({"ev":"clear","post":post(&p)}));
        } else if r < 80 {
            // zero and negative bounds too: update_max_cost takes them although the builder refuses them
            let m = if rng.gen_bool(0.3) { [0i64, 0, -1][rng.gen_range(0..3)] } else { rng.gen_range(1..=max + 3) };
            p.update_max_cost(m);
            t.push(json!({"ev":"setmax","max":m,"post":post(&p)}));
        } else if r < 93 {
            let n = rng.gen_range(1..=4);
            p.bump(k, n);
            t.push(json!({"ev":"bump","k":k,"n":n}));
        } else {
            let keys: Vec<Value> = (1..=nkeys).map(|k| json!([k, p.cost(k), p.contains(k)])).collect();
            t.push(json!({"ev":"observe","max":p.max_cost(),"cap":p.cap(),"keys":keys}));
        }
    }
}

pub fn run(o: &Opts) -> i32 {
    let seed = o.u64("seed", 1);
    let out = o.str("out", "/verif/work/policy.ndjson");
    let mut rng = StdRng::seed_from_u64(seed ^ 0x9011c7);
    let mut t = Trace::create(&out);
    let mut cov = Cov::default();
    verif::events_enable(true);
    let n_inst = if o.thorough() { 400 } else { 60 };
    for i in 0..n_inst {
        let max = match i % 5 {
            0 => rng.gen_range(1..=4),
            1 => rng.gen_range(5..=12),
            2 => rng.gen_range(10..=30),
            3 => 6,
            _ => rng.gen_range(1..=60),
        };
        let nkeys = match i % 3 { 0 => 4, 1 => 9, _ => rng.gen_range(6..=24) };
        let ops = if o.thorough() { 150 } else { 100 };
        instance(&mut t, &mut rng, max, nkeys, ops, &mut cov);
    }
    verif::events_enable(false);
    let lines = t.finish();
    println!("{}", json!({"instances":n_inst,"lines":lines,"out":out,
        "cov":{"adds":cov.adds,"room":cov.room,"present":cov.present,"oversize":cov.oversize,"evicted":cov.evicted,
               "rejected":cov.rejected,"multi_victim":cov.multi_victim,"reject_after_evict":cov.reject_after_evict,
               "ties":cov.ties,"small_sample":cov.small_sample,"over_budget_before_add":cov.over_budget_before_add,"rounds":cov.rounds}}));
    0
}
