//! Baton scheduler: every actor of the model (clients, cache processor, policy worker) is a
//! real OS thread that runs the real code and parks at the yield points of the hooks
//! (`stretto::verif::yield_point`).  The scheduler grants one step at a time.
//!
//! yield names:  "block:X"   park; when granted, mark Blocked(X) and enter the blocking call
//!               "unblock:X" the blocking call returned: park
//!               other       park (unless listed as pass-through)
use parking_lot::{Condvar, Mutex};
use serde_json::Value;
use std::cell::RefCell;
use std::collections::HashSet;
use std::sync::Arc;
use std::time::{Duration, Instant};

#[derive(Clone, Debug, PartialEq, Eq)]
pub enum St {
    Idle,
    Running,
    Parked(&'static str),
    Blocked(&'static str),
    Done,
}

type Job = Box<dyn FnOnce() -> Value + Send + 'static>;

/// how long a granted step may take before the actor is declared stuck (every blocking call of the code under
/// test is bracketed by hooks, so a step normally takes microseconds)
pub const STALL_SECS: u64 = 20;

struct Slot {
    st: St,
    granted: bool,
    job: Option<Job>,
    result: Option<Value>,
    quit: bool,
    /// yield point the actor was released from most recently
    last_from: &'static str,
}

pub struct Actor {
    pub name: String,
    m: Mutex<Slot>,
    cv: Condvar,
}

thread_local! {
    static CURRENT: RefCell<Option<Arc<Actor>>> = const { RefCell::new(None) };
}

static PASS: Mutex<Option<HashSet<&'static str>>> = Mutex::new(None);

/// yield points that do not park (e.g. "open_checked" unless a schedule wants that grain)
pub fn set_pass_through(names: &[&'static str]) {
    *PASS.lock() = Some(names.iter().copied().collect());
}

fn hook(name: &'static str) {
    let a = CURRENT.with(|c| c.borrow().clone());
    let a = match a {
        Some(a) => a,
        None => return, // not an actor thread
    };
    if let Some(p) = PASS.lock().as_ref() {
        if p.contains(name) {
            return;
        }
    }
    let mut s = a.m.lock();
    s.st = St::Parked(name);
    s.granted = false;
    a.cv.notify_all();
    while !s.granted {
        a.cv.wait(&mut s);
    }
    s.granted = false;
    s.last_from = name;
    if let Some(x) = name.strip_prefix("block:") {
        // leak-free: x is a suffix of a 'static str
        let x: &'static str = unsafe { std::mem::transmute::<&str, &'static str>(x) };
        s.st = St::Blocked(x);
    } else {
        s.st = St::Running;
    }
    a.cv.notify_all();
}

pub fn install() {
    stretto::verif::set_yield_hook(Some(Arc::new(hook)));
}

impl Actor {
    pub fn spawn(name: &str) -> Arc<Actor> {
        let a = Arc::new(Actor {
            name: name.to_string(),
            m: Mutex::new(Slot { st: St::Idle, granted: false, job: None, result: None, quit: false, last_from: "" }),
            cv: Condvar::new(),
        });
        let a2 = a.clone();
        std::thread::Builder::new()
            .name(name.to_string())
            .spawn(move || {
                CURRENT.with(|c| *c.borrow_mut() = Some(a2.clone()));
                loop {
                    let job = {
                        let mut s = a2.m.lock();
                        while s.job.is_none() && !s.quit {
                            a2.cv.wait(&mut s);
                        }
                        if s.quit {
                            return;
                        }
                        s.job.take().unwrap()
                    };
                    let r = std::panic::catch_unwind(std::panic::AssertUnwindSafe(job));
                    let v = match r {
                        Ok(v) => v,
                        Err(e) => serde_json::json!({"panic": crate::util::panic_msg(e)}),
                    };
                    let mut s = a2.m.lock();
                    s.result = Some(v);
                    s.st = St::Done;
                    a2.cv.notify_all();
                }
            })
            .expect("spawn actor");
        a
    }

    pub fn state(&self) -> St {
        self.m.lock().st.clone()
    }

    pub fn last_from(&self) -> &'static str {
        self.m.lock().last_from
    }

    /// wait until the actor is not Running (parked, blocked or done); false on timeout
    pub fn settle(&self, timeout: Duration) -> bool {
        let deadline = Instant::now() + timeout;
        let mut s = self.m.lock();
        while s.st == St::Running {
            if self.cv.wait_until(&mut s, deadline).timed_out() {
                return s.st != St::Running;
            }
        }
        true
    }

    /// wait (bounded) for a Blocked actor to leave the blocked state
    pub fn wait_unblocked(&self, timeout: Duration) -> bool {
        let deadline = Instant::now() + timeout;
        let mut s = self.m.lock();
        while matches!(s.st, St::Blocked(_)) || s.st == St::Running {
            if self.cv.wait_until(&mut s, deadline).timed_out() {
                return !(matches!(s.st, St::Blocked(_)) || s.st == St::Running);
            }
        }
        true
    }

    /// start a job on an idle actor and wait until it parks / blocks / completes.
    /// false: the actor did not come back (it is stuck inside the code under test at a place that is not a yield point)
    pub fn submit(&self, job: Job) -> bool {
        {
            let mut s = self.m.lock();
            assert!(s.st == St::Idle, "submit on non-idle actor {} {:?}", self.name, s.st);
            s.job = Some(job);
            s.st = St::Running;
            s.result = None;
            self.cv.notify_all();
        }
        self.settle(Duration::from_secs(STALL_SECS))
    }

    /// let a parked actor take its next step; false: it did not come back
    pub fn grant(&self) -> bool {
        {
            let mut s = self.m.lock();
            assert!(matches!(s.st, St::Parked(_)), "grant on non-parked actor {} {:?}", self.name, s.st);
            s.granted = true;
            s.st = St::Running;
            self.cv.notify_all();
        }
        self.settle(Duration::from_secs(STALL_SECS))
    }

    /// collect the result of a completed job; actor becomes idle
    pub fn take_result(&self) -> Option<Value> {
        let mut s = self.m.lock();
        if s.st == St::Done {
            s.st = St::Idle;
            s.result.take()
        } else {
            None
        }
    }

    pub fn quit(&self) {
        let mut s = self.m.lock();
        s.quit = true;
        self.cv.notify_all();
    }
}
