//! `vh bloom`: drive the real doorkeeper Bloom filter and record every call (C14).
use crate::util::{limbs, panic_msg, Opts, Trace};
use rand::rngs::StdRng;
use rand::{Rng, SeedableRng};
use serde_json::json;
use std::collections::HashSet;
use std::panic::{catch_unwind, AssertUnwindSafe};
use stretto::verif::BloomF;

fn pop(b: &BloomF) -> u32 {
    b.words().iter().map(|w| w.count_ones()).sum()
}

fn family(rng: &mut StdRng, fam: usize, i: u64, base: u64) -> u64 {
    match fam {
        0 => rng.gen::<u64>(),
        1 => i,                                                   // sequential small integers
        2 => (base & 0xffff_ffff) | (rng.gen::<u64>() << 32),     // differ only in high bits
        3 => (base & !0xffff_ffff) | (rng.gen::<u64>() & 0xffff_ffff), // differ only in low bits
        4 => i.wrapping_mul(0x9E37_79B9_7F4A_7C15),
        _ => (i << 40) | i,
    }
}

fn instance(t: &mut Trace, rng: &mut StdRng, cap: usize, mlog: u64, rate: f64, ops: usize, fp_probes: usize) {
    let mut b = match catch_unwind(|| BloomF::new(cap, rate)) {
        Ok(b) => b,
        Err(e) => {
            t.push(json!({"ev":"panic","at":"new","msg":panic_msg(e)}));
            return;
        }
    };
    let (e, size, locs, shift, words) = b.params();
    t.push(json!({"ev":"new","cap":cap,"mlog":mlog,"e":e,"size":size,"locs":locs,"shift":shift,"words":words}));
    let base: u64 = rng.gen();
    let mut added: Vec<u64> = Vec::new();
    // phase 1: mixed operations
    for i in 0..ops {
        let fam = rng.gen_range(0..6);
        let r = rng.gen_range(0..100);
        let h = if r < 25 && !added.is_empty() {
            added[rng.gen_range(0..added.len())]
        } else {
            family(rng, fam, i as u64, base)
        };
        let res = catch_unwind(AssertUnwindSafe(|| {
            if r < 40 {
                b.add(h);
                (json!({"ev":"add","k":limbs(h),"pop":pop(&b)}), true)
            } else if r < 80 {
                let res = b.contains(h);
                (json!({"ev":"contains","k":limbs(h),"res":res}), false)
            } else if r < 97 {
                let res = b.contains_or_add(h);
                (json!({"ev":"coa","k":limbs(h),"res":res,"pop":pop(&b)}), res)
            } else {
                if rng.gen_bool(0.5) { b.reset() } else { b.clear() }
                (json!({"ev":"reset","pop":pop(&b)}), false)
            }
        }));
        match res {
            Ok((v, was_add)) => {
                if v["ev"] == "reset" { added.clear(); }
                if was_add { added.push(h); }
                t.push(v)
            }
            Err(e) => {
                t.push(json!({"ev":"panic","at":"op","msg":panic_msg(e)}));
                return;
            }
        }
    }
    // phase 2: false-positive rate at full load
    if fp_probes > 0 {
        b.reset();
        t.push(json!({"ev":"reset","pop":pop(&b)}));
        let mut set: HashSet<u64> = HashSet::new();
        let fam = rng.gen_range(0..6);
        let mut i = 0u64;
        while set.len() < cap {
            let h = family(rng, fam, i, base);
            i += 1;
            if set.insert(h) {
                b.add(h);
                        t.push(json!({"ev":"add","k":limbs(h),"pop":pop(&b)}));
            }
        }
        let mut probes = 0;
        while probes < fp_probes {
            let h = if fam == 1 { cap as u64 + 1000 + probes as u64 + (rng.gen::<u64>() << 20) } else { rng.gen::<u64>() };
            if set.contains(&h) {
                continue;
            }
                let res = b.contains(h);
            t.push(json!({"ev":"probe","k":limbs(h),"res":res}));
            probes += 1;
        }
        t.push(json!({"ev":"rate","n":cap,"probes":fp_probes}));
    }
}

pub fn run(o: &Opts) -> i32 {
    let seed = o.u64("seed", 1);
    let out = o.str("out", "/verif/work/bloom.ndjson");
    let mut rng = StdRng::seed_from_u64(seed ^ 0xb100f);
    let mut t = Trace::create(&out);
    // (capacity, 1000*log10(1/rate), rate)
    let rates: [(u64, f64); 4] = [(301, 0.5), (1000, 0.1), (2000, 0.01), (3000, 0.001)];
    let caps: Vec<usize> = if o.thorough() { vec![1, 2, 10, 53, 100, 512, 1000, 3000, 10000] } else { vec![1, 10, 100, 1000] };
    let mut n = 0;
    for &cap in &caps {
        for &(mlog, rate) in &rates {
            let fp = if cap >= 100 && cap <= 3000 { if o.thorough() { 6000 } else { 2500 } } else { 0 };
            let ops = if o.thorough() { 400 } else { 150 };
            instance(&mut t, &mut rng, cap, mlog, rate, ops, fp);
            n += 1;
        }
    }
    let lines = t.finish();
    println!("{}", json!({"instances":n,"lines":lines,"out":out}));
    0
}
