//! `vh sketch`: drive the real TinyLFU (count-min sketch + doorkeeper) and
//! record every call with its result and the raw counter bytes (C13).
use crate::util::{limbs, panic_msg, Opts, Trace};
use rand::rngs::StdRng;
use rand::{Rng, SeedableRng};
use serde_json::json;
use std::panic::{catch_unwind, AssertUnwindSafe};
use stretto::verif::Tiny;

const LOW30: u64 = (1 << 30) - 1;

fn hash_pool(rng: &mut StdRng, k: usize) -> Vec<u64> {
    let mut v = Vec::new();
    let base: u64 = rng.gen();
    while v.len() < k {
        let h = match v.len() % 6 {
            0 => rng.gen::<u64>(),
            1 => v.len() as u64,                                  // small integers
            2 => (base & 0xffff_ffff) | (rng.gen::<u64>() << 32), // equal low bits
            3 => (base & !0xffff_ffff) | (rng.gen::<u64>() & 0xffff_ffff), // equal high bits
            4 => u64::MAX - v.len() as u64,
            _ => 1u64 << rng.gen_range(0..64),
        };
        if !v.contains(&h) {
            v.push(h);
        }
    }
    v
}

fn one_instance(t: &mut Trace, rng: &mut StdRng, n: usize, ops: usize, pool: usize, toy_seeds: bool) -> bool {
    let mut tiny = match catch_unwind(|| Tiny::new(n)) {
        Ok(Ok(x)) => x,
        Ok(Err(e)) => {
            t.push(json!({"ev":"new_err","n":n,"err":format!("{}", e)}));
            return false;
        }
        Err(e) => {
            t.push(json!({"ev":"panic","at":"new","n":n,"msg":panic_msg(e)}));
            return false;
        }
    };
    if toy_seeds {
        tiny.set_sketch_seeds([rng.gen_range(0..8), rng.gen_range(0..8), rng.gen_range(0..8), rng.gen_range(0..8)]);
    }
    let seeds = tiny.sketch_seeds();
    let mask = tiny.sketch_mask();
    let rows0 = tiny.sketch_rows();
    let (de, _dsize, dlocs, _dshift, _words) = tiny.door_params();
    let hashes = hash_pool(rng, pool);
    let hrecs: Vec<_> = hashes
        .iter()
        .enumerate()
        .map(|(i, h)| json!({"id": i + 1, "k": limbs(*h)}))
        .collect();
    let (_, samples) = tiny.w();
    t.push(json!({"ev":"new","n":n,"seeds":seeds.iter().map(|s| s & LOW30).collect::<Vec<_>>(),
        "de":de,"dlocs":dlocs,"width":rows0[0].len(),"mask":mask,"samples":samples,"hashes":hrecs}));
    let small = rows0[0].len() <= 64;
    let hot = rng.gen_range(0..hashes.len());
    for step in 0..ops {
        let r: u32 = rng.gen_range(0..100);
        let hi = if rng.gen_bool(0.5) { hot } else { rng.gen_range(0..hashes.len()) };
        let h = hashes[hi];
        if r >= 60 && r < 70 {
            // the batch path used by the policy worker: TinyLFU::increments
            let len = rng.gen_range(2..=(n.min(40) + 3));
            let ids: Vec<usize> = (0..len).map(|_| if rng.gen_bool(0.4) { hot } else { rng.gen_range(0..hashes.len()) }).collect();
            let batch: Vec<u64> = ids.iter().map(|i| hashes[*i]).collect();
            match catch_unwind(AssertUnwindSafe(|| tiny.increments(batch))) {
                Ok(()) => {
                    for i in &ids {
                        t.push(json!({"ev":"binc","h":i + 1}));
                    }
                    let rows = tiny.sketch_rows();
                    let pop: u32 = tiny.door_words().iter().map(|w| w.count_ones()).sum();
                    let (w, _) = tiny.w();
                    t.push(json!({"ev":"rows","rows":rows,"doorpop":pop,"w":w}));
                }
                Err(e) => {
                    t.push(json!({"ev":"panic","at":"increments","n":n,"msg":panic_msg(e)}));
                    return false;
                }
            }
            continue;
        }
        let res = catch_unwind(AssertUnwindSafe(|| {
            if r < 70 {
                tiny.increment(h);
                let (w, _) = tiny.w();
                json!({"ev":"inc","h":hi + 1,"w":w})
            } else if r < 97 {
                let v = tiny.estimate(h);
                json!({"ev":"est","h":hi + 1,"v":v})
            } else {
                tiny.clear();
                json!({"ev":"clear"})
            }
        }));
        match res {
            Ok(v) => t.push(v),
            Err(e) => {
                t.push(json!({"ev":"panic","at":"op","n":n,"msg":panic_msg(e)}));
                return false;
            }
        }
        if (small && step % 7 == 0) || step + 1 == ops || step % 97 == 0 {
            let rows = tiny.sketch_rows();
            let pop: u32 = tiny.door_words().iter().map(|w| w.count_ones()).sum();
            let (w, _) = tiny.w();
            t.push(json!({"ev":"rows","rows":rows,"doorpop":pop,"w":w}));
        }
    }
    true
}

pub fn run(o: &Opts) -> i32 {
    let seed = o.u64("seed", 1);
    let out = o.str("out", "/verif/work/sketch.ndjson");
    let mut rng = StdRng::seed_from_u64(seed ^ 0x5ce7c4);
    let mut t = Trace::create(&out);
    let mut instances = 0;
    let mut ns: Vec<usize> = (1..=12).collect();
    ns.extend([15, 16, 17, 31, 32, 33, 63, 64, 65, 70, 100, 128]);
    if o.thorough() {
        ns.extend(13..=70);
        ns.extend([200, 255, 256, 257, 1000, 1024]);
    }
    for &n in &ns {
        let reps = if o.thorough() { 3 } else { 1 };
        for rep in 0..reps {
            let ops = if n <= 8 { 60 } else if n <= 70 { 200 } else { 400 };
            one_instance(&mut t, &mut rng, n, ops, 10, rep % 2 == 1 || n <= 4);
            instances += 1;
        }
    }
    let lines = t.finish();
    println!("{}", json!({"instances":instances,"lines":lines,"out":out}));
    0
}
