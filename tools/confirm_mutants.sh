#!/bin/bash
# Confirm seeded changes independently: for each /verif/seeded/_incoming/<ID>/mutant_{a,b}.diff
#  (1) applies to current /repo HEAD, (2) builds (default + async), (3) existing suite passes,
#  (4) demo fails with the change, (5) demo passes without it. Results -> /verif/seeded/_incoming/<ID>/confirm_<x>.txt
# usage: confirm_mutants.sh ID...
WT=/var/tmp/wt-confirm
cd /repo || exit 2
git worktree remove --force $WT 2>/dev/null
git worktree add --detach $WT HEAD >/dev/null 2>&1 || exit 2
cp -r /repo/target $WT/target 2>/dev/null
cd $WT
for id in "$@"; do
 for x in a b c; do
  d=${INC:-/verif/seeded/_incoming}/$id
  [ -f $d/mutant_$x.diff ] || continue
  out=$d/confirm_$x.txt; : > $out
  git checkout -q -- . ; rm -rf tests
  if ! git apply $d/mutant_$x.diff 2>>$out; then git apply -3 $d/mutant_$x.diff >>$out 2>&1 || { echo "APPLY=fail" >> $out; continue; }; git reset -q; fi
  echo "APPLY=ok" >> $out
  cargo build --offline >/dev/null 2>&1 && cargo build --offline --features async >/dev/null 2>&1 && echo "BUILD=ok" >> $out || { echo "BUILD=fail" >> $out; continue; }
  r=$(cargo test --offline 2>&1 | grep -E "^test result" | head -1); echo "SUITE=$r" >> $out
  mkdir -p tests; cp $d/demo_$x.rs tests/demo_$x.rs
  feat=""; grep -q "features async" $d/demo_$x.rs && feat="--features async"
  r=$(timeout 600 cargo test --offline $feat --test demo_$x 2>&1 | grep -E "^test result|error(\[|:)" | head -2 | tr '\n' ' '); echo "DEMO_WITH_MUTANT=$r" >> $out
  git checkout -q -- src
  r=$(timeout 600 cargo test --offline $feat --test demo_$x 2>&1 | grep -E "^test result|error(\[|:)" | head -2 | tr '\n' ' '); echo "DEMO_CLEAN=$r" >> $out
  rm -rf tests
 done
done
cd /repo && git worktree remove --force $WT
