#!/bin/bash
# try2.sh <ID> <x> [check ids...]: apply round-2 mutant x of ID, run the given checks (default: ID), restore
id=$1; x=$2; shift 2; checks="${@:-$id}"
p=/verif/seeded/_incoming2/$id/mutant_$x.diff
for c in $checks; do
  echo "== $id-$x vs $c"; /verif/tools/try_mutant.sh $p $c < /dev/null 2>&1 | grep -E "rc=|detail|apply" | cut -c1-240 | head -2
done
