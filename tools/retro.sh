#!/bin/bash
# Re-find every repaired defect: revert one fix at a time in /repo's working tree (reverse patch of the fix commit),
# run the check that owns the property, expect exit 1, restore.  usage: retro.sh  (needs /repo clean and idle)
cd /repo || exit 2
declare -A OWN=( ["Bloom::set"]=C14 ["count-min sketch"]=C13 ["index hash collides"]=C06 ["try_update dropped"]=C05 ["swept only the bucket"]=C05 ["left the expiration buckets"]=C11 ["without TTL as expired"]=C03 ["overwrote the resident entry"]=C16 )
git log --format='%h %s' | grep ' fix:' | while read h rest; do
  id=""
  case "$rest" in
    *"bloom filter"*) id=C14;; *"count-min sketch"*) id=C13;; *"collides with a resident key"*) id=C06;;
    *"try_update dropped"*) id=C05;; *"swept only the bucket"*) id=C05;; *"left the expiration buckets"*) id=C11;;
    *"without TTL as expired"*) id=C03;; *"overwrote the resident entry"*) id=C16;;
    *"drain of the insert buffer is bounded"*) id=C12;; *"get_ttl reads the deadline"*) id=C03;; *"beyond the representable range"*) id=C20;; *"sums its stripes with wrapping"*) id=C10;; *"Wait marker releases its waiter"*) id=C10;;
  esac
  [ -z "$id" ] && continue
  git diff $h $h~1 -- src > /var/tmp/revert-$h.diff
  # the D6 repair: two hook commits right after it moved the WaitDone emit into the new Drop impl -- revert the three together
  # c4be5f8: a later hook commit renamed the yield point next to it; the reverse patch was ported by hand
  [ "$h" = "c4be5f8" ] && cp /verif/tools/revert-c4be5f8.ported.diff /var/tmp/revert-$h.diff
  [ "$h" = "c7106a3" ] && git diff 437375c c7106a3~1 -- src > /var/tmp/revert-$h.diff
  echo "== revert $h ($rest) -> $id"
  /verif/tools/try_mutant.sh /var/tmp/revert-$h.diff $id 2>&1 | grep -E "rc=|detail|does not apply|repo dirty" | cut -c1-260 | head -3
  git -C /repo reset -q --hard HEAD
done
