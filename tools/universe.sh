#!/bin/bash
# universe.sh <name> <command...>: run a command in a private copy of /repo and /verif (mount namespace: the copies are
# bind-mounted over /repo and /verif, so every absolute path keeps working).  Seeded changes and long multi-seed runs go
# there while /repo and /verif stay untouched.  The copy stays in /var/tmp/u-<name> (logs: /var/tmp/u-<name>/verif/work);
# remove it with: rm -rf /var/tmp/u-<name>
name=$1; shift
U=/var/tmp/u-$name
mkdir -p $U/repo $U/verif
rsync -a --delete --exclude target /repo/ $U/repo/
rsync -a --delete --exclude work --exclude replays /verif/ $U/verif/
mkdir -p $U/verif/work $U/verif/replays
exec unshare -m bash -c "mount --bind $U/repo /repo && mount --bind $U/verif /verif && cd /verif && $*"
