#!/bin/bash
# Union of TLC's per-action coverage over the exhaustive configurations of Cache.tla: which actions does NO configuration take?
# usage: action_coverage.sh [cfg names...]   (default: seq conc life ttl async)
cd /verif/spec
for c in ${@:-seq conc life ttl async}; do
  java -XX:+UseParallelGC -Xmx12g -cp /opt/veriftools/tla/tla2tools.jar:/opt/veriftools/tla/CommunityModules-deps.jar tlc2.TLC -workers 12 -coverage 1 \
    -metadir /verif/work/t-cov-$c -cleanup -noGenerateSpecTE -config MC_Cache_$c.cfg MC_Cache.tla 2>&1 \
    | grep -E "^<(MC\w+|ClientStart|Clock) line .* of module MC_Cache>: " | sed -E "s/^<(\w+) line.*>: ([0-9]+):([0-9]+)/$c \1 \3/" | sort -u
done | awk '{ if ($3+0 > m[$2]) m[$2]=$3+0; if (!($2 in m)) m[$2]=0; t[$2]=t[$2] " " $1 ":" $3 } END { for (a in m) print (m[a]==0 ? "NEVER " : "taken ") a t[a] }' | sort
