#!/usr/bin/env python3
"""Regenerates /verif/MANIFEST.json from the table below (kept valid at all times)."""
import json, os, subprocess
V = os.path.dirname(os.path.dirname(os.path.abspath(__file__)))
ALL = ["C%02d" % i for i in range(1, 21)]

# id -> (engine, technique, level text, level note, design_ref)
CLAIMED = {
 "C07": ("policy", "TLC exhaustive on Policy.tla (round-by-round eviction loop) + TLC trace validation of the real LFUPolicy::add rounds",
         "All sequences of policy calls within small bounds are model-checked against the TinyLFU/sampled-LFU rule; every round of the real eviction loop, recorded with the estimates it used, is re-checked by TLC against the same rule.",
         "Trusted: TLC, hook H5 (round observer inside the policy mutex), facade; popularity abstract in the exhaustive model; sample is a bag (duplicates as the code draws them).", "5/C07"),
 "C13": ("sketch", "TLC exhaustive on Sketch.tla (byte-level count-min rows, doorkeeper, aging) + TLC trace validation of the real TinyLFU",
         "Byte-level model of the 4-bit counters checked exhaustively for toy widths (incl. num_counters 1 and non powers of two); every call of the real estimator is replayed in TLC which recomputes every index, counter byte, doorkeeper bit and w.",
         "Trusted: TLC, facade accessors; hashes logged as limbs (mask < 2^30, doorkeeper exponent <= 21).", "5/C13"),
 "C14": ("bloom", "TLC exhaustive on BloomSys.tla (toy sizes) + TLC trace validation: real filter == specified ideal filter probe for probe; false-positive count bounded in the trace spec",
         "No-false-negative / reset / bit accounting are invariants of the specification; the real filter is shown equal to the specified filter on every recorded call at real sizes, and the specification itself counts false positives of never-added probes at full load (<= 4p + 10).",
         "Trusted: TLC, facade; the rate bound is statistical (seeded pseudo-random hashes); sizing floating point bracketed with 1e-3 slack.", "5/C14"),
}
STAGES = (" Executions come from seeded random walks under the baton scheduler; schedules generated (sampled or enumerated) by TLC from "
          "SIM_Cache.tla (specification -> implementation); free-running runs of the real loops / executors and of truly parallel "
          "clients, whose quiescent snapshots and logs Free_Trace.tla checks against the state predicates of Cache.tla; and, where "
          "blocking matters, the lock events of every step (Locks_Trace.tla, MC_Locks_observed).")
CACHE_NOTE = ("Trusted: TLC; hooks H2-H4 (processors parked and stepped through the loop's own handlers; yield points between, never "
              "inside, critical sections); snapshot projection H6; virtual clock H1. Exhaustive model checking only for the small "
              "constants listed in the evidence; behaviours carrying the known-finding signature D7 are exempt from the affected "
              "invariants from that point on.")
def cache_entry(title, text, ref):
    return ("cache", "TLC exhaustive on Cache.tla (MC_Cache configs) + TLC trace validation (Cache_Trace.tla / Free_Trace.tla) of the real cache: " + title,
            text + STAGES, CACHE_NOTE, ref)
CLAIMED.update({
 "C01": ("policy+cache", "TLC on Policy.tla and Cache.tla + trace validation of LFUPolicy calls and of every cache section (charges, used, max_cost)",
         "used = sum of charges and used <= max_cost + slack are invariants checked exhaustively on both specifications and evaluated by TLC on every recorded state of the real policy and of the real cache (eviction-heavy, internal-cost, concurrent and async runs).", CACHE_NOTE, "5/C01"),
 "C02": cache_entry("lookup results and resident values", "Every get/get_mut result of the real cache is compared with the value the specification makes visible for that (index, conflict) key at that point of the schedule; ownership of resident values is an invariant.", "5/C02"),
 "C03": cache_entry("TTL arithmetic on a virtual clock", "Visibility and remaining TTL of every lookup are compared with the specification's arithmetic at millisecond resolution, with inserts, re-inserts and lookups placed around second boundaries; exhaustive TTL model with ticks at arbitrary instants.", "5/C03"),
 "C05": cache_entry("expiration buckets and sweeps", "After every section the expiration buckets, resident entries, charges and on_evict records of the implementation must equal the specification's, whose index is exact and whose sweep takes every due bucket.", "5/C05"),
 "C06": cache_entry("store/policy agreement", "Resident = Charged at every quiescent state is an invariant of the specification (all interleavings of 2 clients with the fine-grained processor) and is evaluated on every quiescent state of the recorded executions.", "5/C06"),
 "C08": cache_entry("callback conservation", "Callbacks (kind, value id, cost) fired inside each section are compared with the specification's; conservation (resident xor exactly one callback xor dropped by clear) is an invariant evaluated at every quiescent state.", "5/C08"),
 "C09": cache_entry("conditional writes", "insert_if_present and vetoing validators (asymmetric and symmetric predicates) on resident, absent, colliding, expired-unswept and still-buffered keys; result, value, deadline, buckets and buffer effect compared after every call.", "5/C09"),
 "C10": cache_entry("wait barrier and termination", "All interleavings of wait with inserts, removes, clear and close for 2 clients are model-checked (no orphaned waiter; every started call returns); every wait() of the real cache must return exactly when the specification releases its marker, with the specified state.", "5/C10"),
 "C11": cache_entry("clear", "clear() with 0..N buffered items, the processor and a second client interleaved at every section; store, buckets, charges, estimator and every metrics counter compared after each section.", "5/C11"),
 "C12": cache_entry("close protocol", "Concurrent closers, operations racing close, stop rendezvous and worker exit are model-checked for 2 clients x 3 calls; results after close, blocking points and both workers' exits of the real cache must follow the specification.", "5/C12"),
 "C16": cache_entry("charged cost formula", "The charge applied by the policy for every New/Update item must be cost (or Coster value) + size_of::<StoreItem<V>> (read from the implementation) unless ignored; evict/reject records carry it.", "5/C16"),
 "C17": cache_entry("metrics", "Every counter is compared after every section; the conservation laws are invariants evaluated at quiescent states.", "5/C17"),
 "C18": ("keyhash+cache", "TLC trace validation of build_key (KeyHash.tla: identity on two's-complement limbs, determinism across borrow forms) + Cache.tla with (index, conflict) keys on colliding pairs",
         "Every supported integer type over boundary and random values; String/&str forms; histories over pairs of keys forced to share an index, every result and state compared with the specification.", CACHE_NOTE, "5/C18"),
})
CLAIMED.update({
 "C04": cache_entry("below-capacity exact-map behaviour", "Ghost demand (charge asked for by every key not yet reclaimed) tracks whether a history stays below capacity; NoLoss (nothing refused, evicted or swept early; resident set = demanded set) is an invariant checked exhaustively for sequential histories with TTLs, ticks and clears, and evaluated at every quiescent state of long recorded sequential histories.", "5/C04"),
 "C15": ("ring", "TLC exhaustive on Ring.tla (batching, bounded queue, keep/drop accounting) + TLC trace validation (Ring_Trace.tla) of the ring / policy-queue / gets_kept / gets_dropped / estimates of the real cache",
         "All interleavings of lookups, worker steps, clear and close within small bounds; on the real cache every lookup and every worker step is compared with the specification and the estimates must reflect the applied lookups.", CACHE_NOTE, "5/C15"),
 "C19": cache_entry("the async flavour", "Every profile re-run on AsyncCache and validated against the same specification (Flavor = async: capacity-1 stop slots, awaiting remove); identical sequential histories executed on both flavours and compared step by step.", "5/C19"),
 "C20": ("config+cache", "TLC on Config.tla (validation rule, dimensioning) + trace validation of caches built from a sweep of accepted configurations",
         "num_counters 1..70 each, small buffers, buffer_items 0/1/2/64, max_cost 1..8 and negative: each instance runs a workload with the policy worker applying batches to the small estimator; panics are events the specification does not have; rejected combinations must return the specified error.", CACHE_NOTE, "5/C20"),
})
NOT_YET = "check not built yet (work in progress; see DESIGN.md section 10)"

def main():
    commits = subprocess.run(["git", "-C", "/repo", "log", "--format=%h %s"], capture_output=True, text=True).stdout.splitlines()
    hook_commits = [c.split()[0] for c in commits if c.split(" ", 1)[1].startswith("verif hooks")]
    checks = []
    for pid in ALL:
        if pid not in CLAIMED:
            continue
        eng, tech, text, note, ref = CLAIMED[pid]
        checks.append({
            "property_id": pid,
            "quick_cmd": "./check %s --tier quick" % pid,
            "thorough_cmd": "./check %s --tier thorough" % pid,
            "evidence_file": "/verif/evidence/%s.json" % pid,
            "replay_cmd_template": "./check %s --replay {path}" % pid,
            "engine": eng,
            "level_claimed": {"category": "model_checking", "text": text, "design_ref": "DESIGN.md section " + ref},
            "level_note": note,
            "technique": tech,
        })
    m = {
        "version": 1,
        "setup_cmd": "./check setup",
        "hooks": {
            "guard": "transparencies_stretto_verif",
            "enable": "rustflags --cfg transparencies_stretto_verif in /verif/harness/.cargo/config.toml (harness has a path dependency on /repo)",
            "baseline_off_cmd": "cd /repo && cargo nextest run --workspace --no-fail-fast --tool-config-file pb:/w/lib/nextest.toml --profile pb --test-threads 8 --offline || cargo test --workspace --no-fail-fast --offline",
            "source_commits": list(reversed(hook_commits)),
            "add_only": False,
        },
        "engines": [
            {"name": "sketch", "path": "spec/Sketch.tla spec/MC_Sketch.tla spec/Sketch_Trace.tla harness/src/sketch.rs", "serves_properties": ["C13"], "kind_free_text": "TLA+/TLC exhaustive + trace validation"},
            {"name": "bloom", "path": "spec/Bloom.tla spec/BloomSys.tla spec/MC_Bloom.tla spec/Bloom_Trace.tla harness/src/bloom.rs", "serves_properties": ["C14"], "kind_free_text": "TLA+/TLC exhaustive + trace validation"},
            {"name": "policy", "path": "spec/Policy.tla spec/MC_Policy.tla spec/Policy_Trace.tla harness/src/policy.rs", "serves_properties": ["C07", "C01"], "kind_free_text": "TLA+/TLC exhaustive + trace validation"},
            {"name": "cache", "path": "spec/Cache.tla spec/MC_Cache.tla spec/Cache_Trace.tla harness/src/cache.rs harness/src/sched.rs harness/src/scenario.rs", "serves_properties": ["C01", "C02", "C03", "C04", "C05", "C06", "C08", "C09", "C10", "C11", "C12", "C16", "C17", "C18", "C19", "C20"], "kind_free_text": "TLA+/TLC exhaustive + trace validation under a baton scheduler"},
            {"name": "ring", "path": "spec/Ring.tla spec/MC_Ring.tla spec/Ring_Trace.tla harness/src/cache.rs", "serves_properties": ["C15"], "kind_free_text": "TLA+/TLC exhaustive + trace validation"},
            {"name": "config", "path": "spec/Config.tla spec/MC_Config.tla", "serves_properties": ["C20"], "kind_free_text": "TLA+/TLC exhaustive"},
            {"name": "histogram", "path": "spec/Histogram.tla spec/MC_Histogram.tla spec/Histogram_Trace.tla harness/src/histogram.rs", "serves_properties": ["C17"], "kind_free_text": "TLA+/TLC exhaustive + trace validation"},
            {"name": "free", "path": "spec/Free_Trace.tla harness/src/free.rs", "serves_properties": ["C05", "C12", "C15", "C19", "C20"], "kind_free_text": "TLC validation of quiescent snapshots of free-running runs (real loops, real executors)"},
            {"name": "sim", "path": "spec/SIM_Cache.tla spec/SIM_Cache.cfg", "serves_properties": ["C02", "C06", "C08", "C10", "C11", "C12", "C19"], "kind_free_text": "TLC simulation -> schedules executed on the real cache"},
            {"name": "keyhash", "path": "spec/KeyHash.tla spec/KeyHash_Trace.tla harness/src/keyhash.rs", "serves_properties": ["C18"], "kind_free_text": "TLA+/TLC trace validation"},
        ],
        "checks": checks,
        "notes": "add_only=false: hook H1 splits the one `use std::time::{Duration, SystemTime, UNIX_EPOCH}` line of src/ttl.rs into cfg'd imports so that the virtual clock can stand in for SystemTime; hooks H9 do the same to the `use parking_lot::...` lines of store.rs, ttl.rs, policy.rs, policy/{sync,async}.rs, ring.rs and utils.rs (traced locks); every other hook line is an addition. Known findings and fixed defects: /verif/known_findings.json.",
        "not_applicable": [{"property_id": p, "reason": NOT_YET} for p in ALL if p not in CLAIMED],
    }
    json.dump(m, open(os.path.join(V, "MANIFEST.json"), "w"), indent=1)

if __name__ == "__main__":
    main()
