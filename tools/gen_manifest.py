#!/usr/bin/env python3
"""Regenerates /verif/MANIFEST.json from the table below (kept valid at all times)."""
import json, os, subprocess
V = os.path.dirname(os.path.dirname(os.path.abspath(__file__)))
ALL = ["C%02d" % i for i in range(1, 21)]

# id -> (engine, technique, level text, level note, design_ref)
CLAIMED = {
 "C07": ("policy", "TLC exhaustive on Policy.tla (round-by-round eviction loop) + TLC trace validation of the real LFUPolicy::add rounds",
         "All sequences of policy calls within small bounds are model-checked against the TinyLFU/sampled-LFU rule; every round of the real eviction loop, recorded with the estimates it used, is re-checked by TLC against the same rule.",
         "Trusted: TLC, hook H5 (round observer inside the policy mutex), facade; popularity abstract in the exhaustive model; sample is a bag (duplicates as the code draws them).", "5/C07"),
 "C13": ("sketch", "TLC exhaustive on Sketch.tla (byte-level count-min rows, doorkeeper, aging) + TLC trace validation of the real TinyLFU",
         "Byte-level model of the 4-bit counters checked exhaustively for toy widths (incl. num_counters 1 and non powers of two); every call of the real estimator is replayed in TLC which recomputes every index, counter byte, doorkeeper bit and w.",
         "Trusted: TLC, facade accessors; hashes logged as limbs (mask < 2^30, doorkeeper exponent <= 21).", "5/C13"),
 "C14": ("bloom", "TLC exhaustive on BloomSys.tla (toy sizes) + TLC trace validation: real filter == specified ideal filter probe for probe; false-positive count bounded in the trace spec",
         "No-false-negative / reset / bit accounting are invariants of the specification; the real filter is shown equal to the specified filter on every recorded call at real sizes, and the specification itself counts false positives of never-added probes at full load (<= 4p + 10).",
         "Trusted: TLC, facade; the rate bound is statistical (seeded pseudo-random hashes); sizing floating point bracketed with 1e-3 slack.", "5/C14"),
}
NOT_YET = "check not built yet (work in progress; see DESIGN.md section 10)"

def main():
    commits = subprocess.run(["git", "-C", "/repo", "log", "--format=%h %s"], capture_output=True, text=True).stdout.splitlines()
    hook_commits = [c.split()[0] for c in commits if c.split(" ", 1)[1].startswith("verif hooks")]
    checks = []
    for pid in ALL:
        if pid not in CLAIMED:
            continue
        eng, tech, text, note, ref = CLAIMED[pid]
        checks.append({
            "property_id": pid,
            "quick_cmd": "./check %s --tier quick" % pid,
            "thorough_cmd": "./check %s --tier thorough" % pid,
            "evidence_file": "/verif/evidence/%s.json" % pid,
            "replay_cmd_template": "./check %s --replay {path}" % pid,
            "engine": eng,
            "level_claimed": {"category": "model_checking", "text": text, "design_ref": "DESIGN.md section " + ref},
            "level_note": note,
            "technique": tech,
        })
    m = {
        "version": 1,
        "setup_cmd": "./check setup",
        "hooks": {
            "guard": "transparencies_stretto_verif",
            "enable": "rustflags --cfg transparencies_stretto_verif in /verif/harness/.cargo/config.toml (harness has a path dependency on /repo)",
            "baseline_off_cmd": "cd /repo && cargo nextest run --workspace --no-fail-fast --tool-config-file pb:/w/lib/nextest.toml --profile pb --test-threads 8 --offline || cargo test --workspace --no-fail-fast --offline",
            "source_commits": list(reversed(hook_commits)),
            "add_only": False,
        },
        "engines": [
            {"name": "sketch", "path": "spec/Sketch.tla spec/MC_Sketch.tla spec/Sketch_Trace.tla harness/src/sketch.rs", "serves_properties": ["C13"], "kind_free_text": "TLA+/TLC exhaustive + trace validation"},
            {"name": "bloom", "path": "spec/Bloom.tla spec/BloomSys.tla spec/MC_Bloom.tla spec/Bloom_Trace.tla harness/src/bloom.rs", "serves_properties": ["C14"], "kind_free_text": "TLA+/TLC exhaustive + trace validation"},
            {"name": "policy", "path": "spec/Policy.tla spec/MC_Policy.tla spec/Policy_Trace.tla harness/src/policy.rs", "serves_properties": ["C07", "C01"], "kind_free_text": "TLA+/TLC exhaustive + trace validation"},
        ],
        "checks": checks,
        "notes": "add_only=false: hook H1 splits the one `use std::time::{Duration, SystemTime, UNIX_EPOCH}` line of src/ttl.rs into cfg'd imports so that the virtual clock can stand in for SystemTime; every other hook line is an addition. Known findings and fixed defects: /verif/known_findings.json.",
        "not_applicable": [{"property_id": p, "reason": NOT_YET} for p in ALL if p not in CLAIMED],
    }
    json.dump(m, open(os.path.join(V, "MANIFEST.json"), "w"), indent=1)

if __name__ == "__main__":
    main()
