#!/bin/bash
# tv.sh <Module_Trace> <trace.ndjson> [cfg]  -- validate one trace, print the essentials
m=$1; t=$2; cfg=${3:-$m.cfg}
cd /verif/spec && TRACE=$t java -XX:+UseParallelGC -Xss1g -Dtlc2.tool.queue.IStateQueue=StateDeque -cp /opt/veriftools/tla/tla2tools.jar:/opt/veriftools/tla/CommunityModules-deps.jar tlc2.TLC -workers 1 -metadir /verif/work/t -cleanup -noGenerateSpecTE -config $cfg $m.tla 2>&1 | grep -v "^[0-9]*\. Line\|^Parsing\|^Semantic\|^Linting"
