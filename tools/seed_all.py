#!/usr/bin/env python3
"""For every incoming seeded change: run the owning property's quick check against it (apply to /repo, run,
restore) and file it under /verif/seeded/<ID>-<x>/ with patch.diff, demo.rs and meta.json.
usage: seed_all.py [ID ...]   (default: all under _incoming)"""
import json, os, re, shutil, subprocess, sys
INC = os.environ.get("INC", "/verif/seeded/_incoming")
SUF = os.environ.get("SUF", "")
ids = sys.argv[1:] or sorted(os.listdir(INC))
NEEDS = {}
def first_par(notes, x):
    # crude: the notes section of mutant A / B
    m = re.split(r"(?im)^#+.*mutant\s*[bc].*$|^\*\*mutant [bc]", notes)
    idx = {"a": 0, "b": 1, "c": 2}[x]
    part = m[idx] if len(m) > idx else notes
    return part.strip()[:1800]
for pid in ids:
    d = os.path.join(INC, pid)
    for x in ("a", "b", "c"):
        patch = os.path.join(d, "mutant_%s.ported.diff" % x)
        ported = os.path.exists(patch)
        if not ported:
            patch = os.path.join(d, "mutant_%s.diff" % x)
        if not os.path.exists(patch):
            continue
        conf = os.path.join(d, "confirm_%s.txt" % x)
        confirm = open(conf).read() if os.path.exists(conf) else "(not re-confirmed on the current HEAD; sub-agent's own confirmation in notes)"
        invalid = os.path.exists(os.path.join(d, "invalid_%s.txt" % x))
        out = subprocess.run(["/verif/tools/try_mutant.sh", patch, pid], capture_output=True, text=True).stdout
        rc = re.search(r"rc=(\d+)", out)
        rc = int(rc.group(1)) if rc else -1
        detail = next((l.strip() for l in out.splitlines() if l.strip().startswith("detail:")), "")
        dst = "/verif/seeded/%s-%s%s" % (pid, SUF, x)
        os.makedirs(dst, exist_ok=True)
        shutil.copy(patch, os.path.join(dst, "patch.diff"))
        if ported:
            shutil.copy(os.path.join(d, "mutant_%s.diff" % x), os.path.join(dst, "patch.original.diff"))
        demo = os.path.join(d, "demo_%s.rs" % x)
        if os.path.exists(demo):
            shutil.copy(demo, os.path.join(dst, "demo.rs"))
        notes = open(os.path.join(d, "notes.md")).read() if os.path.exists(os.path.join(d, "notes.md")) else ""
        meta = {
            "property": pid,
            "mutant": x,
            "source": "independent sub-agent given only the property text and a scratch worktree",
            "what_and_needs": first_par(notes, x),
            "ported_to_head": ported,
            "confirmation": confirm,
            "invalidated": open(os.path.join(d, "invalid_%s.txt" % x)).read() if invalid else None,
            "check_run": "tools/try_mutant.sh patch.diff %s  (git apply to /repo; ./check %s --tier quick; git checkout)" % (pid, pid),
            "check_exit": rc,
            "detected": rc == 1,
            "first_violation": detail[:600],
        }
        json.dump(meta, open(os.path.join(dst, "meta.json"), "w"), indent=1)
        print(pid, x, "rc=%d" % rc, "DETECTED" if rc == 1 else "MISSED", flush=True)
