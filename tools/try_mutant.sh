#!/bin/bash
# usage: try_mutant.sh <patch> <ID> [tier]  -- applies a seeded change to /repo, runs the check, restores /repo
patch="$1"; id="$2"; tier="${3:-quick}"
cd /repo || exit 2
if ! git diff --quiet; then echo "repo dirty"; exit 2; fi
if ! git apply "$patch" 2>/dev/null; then git apply -3 "$patch" || { echo "patch does not apply"; git checkout -- . ; exit 2; }; fi
cd /verif && ./check "$id" --tier "$tier" > /verif/work/mutant-$id.log 2>&1; rc=$?
cd /repo && git checkout -- . && git status --short | head -3
grep -E "VIOLATION|TOOL-ERROR|held|detail" /verif/work/mutant-$id.log | head -6
echo "rc=$rc"
