"""Per-property decision procedures (DESIGN.md section 5). Each function receives the driver
module `d` (helpers) and a `Run` to fill in."""
import json, os, re, shutil, time


def _thorough(run):
    return run.tier == "thorough"


# ----------------------------------------------------------------------------- C13

def c13(d, run):
    """Popularity estimates: Sketch.tla exhaustively (toy widths) + traces of the real TinyLFU."""
    wd = run.workdir
    # 1. design: exhaustive TLC, small widths incl. non powers of two and num_counters = 1
    r = d.tlc_mc("MC_Sketch.tla", "MC_Sketch.cfg", wd, workers=8)
    run.add_mc(r, "MC_Sketch (num_counters 1,2,3,4,5,8; depth 2; 3 hashes; <= 9 ops)")
    if r["violated"]:
        run.violation("specification Sketch.tla violates %s in MC_Sketch.cfg" % r["violated"], replay_lines=[r["out"][-6000:]])
    r = d.tlc_mc("MC_Sketch.tla", "MC_Sketch_sat.cfg", wd, workers=8)
    run.add_mc(r, "MC_Sketch_sat (saturation: num_counters 32; <= 19 ops)")
    if r["violated"]:
        run.violation("specification Sketch.tla violates %s in MC_Sketch_sat.cfg" % r["violated"], replay_lines=[r["out"][-6000:]])
    if _thorough(run):
        r = d.tlc_mc("MC_Sketch.tla", "MC_Sketch_deep.cfg", wd, workers=12, timeout=2400)
        run.add_mc(r, "MC_Sketch_deep (depth 4; num_counters 1..8; <= 11 ops)")
        if r["violated"]:
            run.violation("specification Sketch.tla violates %s in MC_Sketch_deep.cfg" % r["violated"], replay_lines=[r["out"][-6000:]])
    run.exhaustive = True
    # 2. binding: traces of the real estimator
    trace = os.path.join(wd, "sketch.ndjson")
    info = d.vh(["sketch", "--out", trace, "--seed", run.seed, "--tier", run.tier])
    files = d.split_trace(trace, os.path.join(wd, "chunks"), max_lines=1500)
    res = d.validate_chunks("Sketch_Trace.tla", "Sketch_Trace.cfg", files, wd, par=6)
    ok = d.report_trace_results(run, res, "real TinyLFU/CountMinSketch deviates from Sketch.tla")
    run.traces = info.get("instances", 0) if not run.violations else ok
    run.evaluations = info.get("lines", 0)
    run.nontrivial = _distinct_add(run, trace, ("inc", "binc"))
    run.rule = ("one evaluation = one recorded call (inc/est/clear/rows) of the real TinyLFU, validated by TLC against "
                "Sketch.tla; non-trivial = increment calls (each changes doorkeeper or counters and is checked "
                "byte-for-byte); instances cover num_counters 1..12,15..17,31..33,63..65,70,100,128 (thorough: 1..70, 200..1024)")
    run.samples = d.sample_lines(trace, 2, lambda j: j.get("ev") == "inc") + d.sample_lines(trace, 1, lambda j: j.get("ev") == "est")
    run.assumptions = ["hashes are logged as three limbs; the spec recomputes all indices (mask < 2^30, doorkeeper exponent <= 21)",
                       "TLC explores Sketch.tla exhaustively only for toy widths (1..8 counters, depth 2; 32 counters for saturation); "
                       "real widths are covered by trace validation"]


def _distinct_add(run, path, names):
    """distinct non-trivial cases: recorded events of the given kinds, told apart by everything they carry except the clock"""
    import hashlib
    acc = run.__dict__.setdefault("_distinct", set())
    with open(path) as f:
        for line in f:
            try:
                j = json.loads(line)
            except Exception:
                continue
            if j.get("ev") in names:
                j.pop("now", None)
                acc.add(hashlib.md5(json.dumps(j, sort_keys=True).encode()).hexdigest())
    return len(acc)


def _count(path, pred):
    n = 0
    with open(path) as f:
        for line in f:
            try:
                if pred(json.loads(line)):
                    n += 1
            except Exception:
                pass
    return n


# ----------------------------------------------------------------------------- C14

def c14(d, run):
    wd = run.workdir
    for cfg, name in (("MC_Bloom.cfg", "MC_Bloom (2^3 bits, 2 probes, 8 hashes)"),
                      ("MC_Bloom_k3.cfg", "MC_Bloom_k3 (2^4 bits, 3 probes, 6 hashes)"),
                      ("MC_Bloom_k1.cfg", "MC_Bloom_k1 (2^3 bits, 1 probe, 8 hashes covering every bit)")):
        r = d.tlc_mc("MC_Bloom.tla", cfg, wd, workers=8)
        run.add_mc(r, name)
        if r["violated"]:
            run.violation("specification BloomSys.tla violates %s in %s" % (r["violated"], cfg), replay_lines=[r["out"][-6000:]])
    run.exhaustive = True
    trace = os.path.join(wd, "bloom.ndjson")
    info = d.vh(["bloom", "--out", trace, "--seed", run.seed, "--tier", run.tier])
    files = d.split_trace(trace, os.path.join(wd, "chunks"), max_lines=2500)
    res = d.validate_chunks("Bloom_Trace.tla", "Bloom_Trace.cfg", files, wd, par=8)
    ok = d.report_trace_results(run, res, "real Bloom filter deviates from the specified filter (Bloom.tla)")
    run.traces = info.get("instances", 0) if not run.violations else ok
    run.evaluations = info.get("lines", 0)
    run.nontrivial = _distinct_add(run, trace, ("add", "coa", "probe"))
    run.rule = ("one evaluation = one recorded call of the real Bloom filter; every contains/contains_or_add result and the "
                "bit-array population after every add are compared with the specified ideal filter; non-trivial = add / "
                "contains_or_add / never-added probe events; capacities x rates {0.5,0.1,0.01,0.001}; the false-positive "
                "count at full load is counted by the specification and bounded by 4p + 10 probes")
    run.samples = d.sample_lines(trace, 1, lambda j: j.get("ev") == "new") + d.sample_lines(trace, 2, lambda j: j.get("ev") == "probe")
    run.assumptions = ["false-positive RATE is a statistical statement: decided as (impl == specified ideal filter, probe for probe) "
                       "plus a measured bound on the specified filter (4p + 10 of the probes)",
                       "sizing formulas use floating point in the code; the spec brackets them with 1e-3 relative slack"]


# ----------------------------------------------------------------------------- C07 / C01 (policy level)

def _policy_stage(d, run, what):
    wd = run.workdir
    cfgs = [("MC_Policy.cfg", "MC_Policy (4 keys, sample 2, costs 1..3, max {2,4}, est {0,1}, <= 5 ops)")]
    if _thorough(run):
        cfgs.append(("MC_Policy_deep.cfg", "MC_Policy_deep (4 keys, sample 3, costs 0..3, max {3,5}, est 0..2, <= 4 ops)"))
    for cfg, name in cfgs:
        r = d.tlc_mc("MC_Policy.tla", cfg, wd, workers=10, timeout=3000)
        run.add_mc(r, name)
        if r["violated"]:
            run.violation("specification Policy.tla violates %s in %s" % (r["violated"], cfg), replay_lines=[r["out"][-6000:]])
    run.exhaustive = True
    trace = os.path.join(wd, "policy.ndjson")
    info = d.vh(["policy", "--out", trace, "--seed", run.seed, "--tier", run.tier])
    files = d.split_trace(trace, os.path.join(wd, "chunks"), max_lines=1200)
    res = d.validate_chunks("Policy_Trace.tla", "Policy_Trace.cfg", files, wd, par=8)
    ok = d.report_trace_results(run, res, what)
    run.traces += info.get("instances", 0) if not run.violations else ok
    run.evaluations += info.get("lines", 0)
    run.notes["policy_branch_coverage"] = info.get("cov", {})
    return trace, info


def c07(d, run):
    trace, info = _policy_stage(d, run, "real LFUPolicy::add deviates from the TinyLFU / sampled-LFU rule of Policy.tla")
    cov = info.get("cov", {})
    run.nontrivial = _distinct_add(run, trace, ("add",))
    run.rule = ("one evaluation = one recorded policy call; non-trivial = rounds of the eviction loop, each re-checked by TLC "
                "(sample size and residency, minimum, reject-iff-strictly-less-popular, room recomputed, stop condition); "
                "branch counts in policy_branch_coverage")
    run.samples = d.sample_lines(trace, 2, lambda j: j.get("ev") == "add" and len(j.get("rounds", [])) >= 2)
    # the same rule inside the cache: policy.add called by the real processor, estimates fed by real lookups / bumps
    h = cache_stage(d, run, "policy.add inside the cache deviates from the TinyLFU / sampled-LFU rule",
                    [], [("evict", "sync", 25, 200), ("evict", "async", 10, 80), ("ring", "sync", 8, 60)],
                    ["costs", "store", "chan", "rounds"], ["UsedIsSum", "Bounded"], nontrivial=("PNewAdd",))
    run.nontrivial = len(getattr(run, "_distinct", ()))
    for k in ("evicted", "rejected", "multi_victim", "reject_after_evict", "ties", "small_sample", "over_budget_before_add"):
        if cov.get(k, 0) == 0 and not run.violations:
            raise d.ToolError("vacuous run: branch %s never crossed" % k)
    run.assumptions = ["popularity is abstract in Policy.tla; traces carry the estimates the code actually used (hook H5)",
                       "the sample is a bag: duplicates and stale duplicates of earlier victims are modelled as the code produces them"]


# ----------------------------------------------------------------------------- cache-level checks

ALL_INV = ["UsedIsSum", "Bounded", "Agree", "Conservation", "NeverTwice", "NothingLost", "ResidentOwned",
           "IndexExact", "NoOrphan", "MetricsLaws", "MetricsCounts", "NoLoss", "CondNeverCreates", "ClearEmpties", "ChargeFormula"]
ALL_CMP = ["store", "em", "costs", "chan", "life", "met", "cbs", "out", "vttl", "pop", "rounds"]

MC_NAMES = {
    "seq": "MC_Cache_seq (1 client x 4 calls; colliding keys; veto validator; internal cost 1; insert/insert_if_present/remove/get/clear/set_max)",
    "conc": "MC_Cache_conc (2 clients x 2 calls; buffer 1..2; cost 1, max_cost 1; insert/remove/wait/clear; every interleaving with the fine-grained processor)",
    "life": "MC_Cache_life (2 clients x 2 calls; insert/wait/clear/close/get/remove; stop rendezvous; every interleaving)",
    "ttl": "MC_Cache_ttl (1 client x 3 calls; ttl 0 / 0.75 s; clock steps of 0.5 s up to 2.5 s; ticks at any time)",
    "conc_full": "MC_Cache_conc_full (2 clients x 2 calls; costs 1..2, max_cost 2; insert/remove/get/wait/clear)",
    "life_full": "MC_Cache_life_full (2 clients x 3 calls; insert/wait/clear/close/get/remove)",
    "async": "MC_Cache_async (2 clients x 2 calls; async flavour: capacity-1 stop slots, awaiting remove)",
}


def _trace_cfg(run, name, cmp, invs):
    path = os.path.join(run.workdir, name + ".cfg")
    with open(path, "w") as f:
        f.write("SPECIFICATION TSpec\nCONSTANTS\n  Clients = {1, 2, 3}\n  Idx = {1, 2, 3, 4, 5, 6, 7, 8, 9, 10}\n"
                "  Cfl = {0, 1, 2, 3, 4, 5, 6, 7, 8}\n  Val <- TraceVal\n  SecUnits = 1000\n  Nil = Nil\n")
        f.write("  Cmp = {%s}\n" % ", ".join('"%s"' % c for c in cmp))
        f.write("INVARIANTS %s\n" % " ".join(invs))
        f.write("POSTCONDITION Accepted\nCHECK_DEADLOCK FALSE\n")
    return path


def cache_stage(d, run, what, mcs, profiles, cmp, invs, mc_props=None, nontrivial=()):
    """mcs: names of MC_Cache_<name>.cfg to run; profiles: [(profile, flavor, n_quick, n_thorough)]"""
    wd = run.workdir
    if _thorough(run):
        mcs = [m + "_full" if os.path.exists(os.path.join(d.SPEC, "MC_Cache_%s_full.cfg" % m)) else m for m in mcs]
    for name in mcs:
        r = d.tlc_mc("MC_Cache.tla", "MC_Cache_%s.cfg" % name, wd, workers=12, timeout=5400, heap="12g", coverage=_thorough(run))
        run.add_mc(r, MC_NAMES.get(name, name))
        if r["cov"]:
            # vacuity: which actions of Cache.tla this configuration never took (TLC -coverage, per named action of MC_Cache)
            never = sorted(a[2:] for a, n in r["cov"].items() if a.startswith("MC") and a != "MCInit" and n == 0)
            run.notes.setdefault("actions_never_taken", {})[name] = never
            run.notes.setdefault("actions_taken", {})[name] = len([a for a, n in r["cov"].items() if a.startswith("MC") and a != "MCInit" and n > 0])
        bad = [v for v in r["violated"]]
        if bad:
            mine = [v for v in bad if v in invs or v.startswith("<")]
            if mine:
                run.violation("specification Cache.tla violates %s in MC_Cache_%s.cfg" % (mine, name), replay_lines=[r["out"][-8000:]])
            else:
                raise d.ToolError("MC_Cache_%s: invariant %s (not of this property) violated in the specification" % (name, bad))
    run.exhaustive = True
    cfg = _trace_cfg(run, "trace", cmp, invs)
    hist = {}
    total_events = 0
    for (prof, flavor, nq, nt) in profiles:
        n = nt if _thorough(run) else nq
        trace = os.path.join(wd, "cache-%s-%s.ndjson" % (prof, flavor))
        info = d.vh(["cache", "--profile", prof, "--flavor", flavor, "--n", n, "--seed", run.seed, "--out", trace], timeout=1800)
        for k, v in info.get("hist", {}).items():
            hist[k] = hist.get(k, 0) + v
        total_events += info.get("events", 0)
        files = d.split_trace(trace, os.path.join(wd, "chunks-%s-%s" % (prof, flavor)), start_events=("Init",), max_lines=1500)
        res = d.validate_chunks("Cache_Trace.tla", cfg, files, wd, par=8, start_events=("Init",))
        ok = d.report_trace_results(run, res, "%s [profile %s, %s]" % (what, prof, flavor))
        if nontrivial:
            _distinct_add(run, trace, nontrivial)
        run.traces += n
        if not run.samples:
            run.samples = d.sample_lines(trace, 3, lambda j: j.get("ev") in ("InsBegin", "PNewAdd", "PCleanupKey", "PStop"))
            run.samples = [{k: v for k, v in s.items() if k != "post"} if isinstance(s, dict) else s for s in run.samples]
    run.evaluations += total_events
    run.notes["event_histogram"] = hist
    run.notes["compared_state"] = cmp
    run.notes["invariants_on_traces"] = invs
    return hist


def sim_stage(d, run, what, cmp, invs, nq=40, nt=400, flavors=("sync",)):
    """Specification -> implementation: TLC simulates SIM_Cache.tla and prints each behaviour as a schedule; the harness
    executes the schedules on the real cache; the recorded traces are validated like all others."""
    wd = run.workdir
    n = nt if _thorough(run) else nq
    r = d.tlc("SIM_Cache.tla", "SIM_Cache.cfg", wd, workers=1, timeout=1200,
              extra=["-simulate", "num=%d" % n, "-depth", "61", "-seed", str(run.seed)], heap="4g")
    out = r["out"]
    bad = re.findall(r"Invariant (\S+) is violated", out)
    if bad:
        run.violation("specification Cache.tla violates %s during simulation of SIM_Cache" % bad, replay_lines=[out[-8000:]])
    seen, sched = set(), os.path.join(wd, "sched.ndjson")
    with open(sched, "w") as f:
        for line in out.splitlines():
            m = re.match(r'<<"SCHED", "(.*)">>\s*$', line.strip())
            if not m:
                continue
            js = m.group(1).encode().decode("unicode_escape")
            if js in seen:
                continue
            try:
                json.loads(js)
            except Exception:
                continue
            seen.add(js)
            f.write(js + "\n")
    if not seen:
        raise d.ToolError("TLC simulation produced no schedule")
    m = re.findall(r"(\d+) states checked", out) or re.findall(r"(\d+) states generated", out)
    gen = int(m[-1]) if m else 0
    run.notes.setdefault("tlc_runs", []).append({"config": "SIM_Cache simulation (num=%d, depth 60): schedules for the real cache" % n,
                                                  "states_generated": gen, "distinct_schedules": len(seen), "wall_s": round(r["wall"], 1)})
    run.transitions += gen
    cfg = _trace_cfg(run, "trace-sim", cmp, invs)
    for fl in flavors:
        trace = os.path.join(wd, "sim-%s.ndjson" % fl)
        info = d.vh(["cache", "--sched", sched, "--flavor", fl, "--out", trace], timeout=1800)
        files = d.split_trace(trace, os.path.join(wd, "chunks-sim-%s" % fl), start_events=("Init",), max_lines=1500)
        res = d.validate_chunks("Cache_Trace.tla", cfg, files, wd, par=8, start_events=("Init",))
        d.report_trace_results(run, res, "%s [TLC-generated schedules, %s]" % (what, fl))
        run.traces += info.get("instances", 0)
        run.evaluations += info.get("lines", 0)
        run.notes["tlc_schedules_%s" % fl] = {k: info.get(k) for k in ("instances", "steps_executed", "steps_skipped", "hung")}
    return len(seen)


EXH_NAMES = {
    "exh_q": "every interleaving of client 1 {insert | wait | remove} with client 2 {clear | insert}, one call each, one key, with the fine-grained processor",
    "exh": "every interleaving of two clients issuing one call each of {insert, clear, wait, remove} on one key, with the fine-grained processor",
    "exh_life": "every interleaving of client 1 {insert | wait} with client 2 close(), with the processor and the policy worker",
}


def exh_stage(d, run, what, name, cmp, invs, flavors=("sync",)):
    """Specification -> implementation, EXHAUSTIVELY: TLC enumerates every behaviour of a tiny SIM_Cache configuration (the history
    variable makes every path a state); each is executed as a schedule on the real cache and the recorded trace validated."""
    wd = run.workdir
    r = d.tlc("SIM_Cache.tla", "SIM_Cache_%s.cfg" % name, wd, workers=8, timeout=1800, heap="8g")
    out = r["out"]
    bad = re.findall(r"Invariant (\S+) is violated", out)
    if bad:
        run.violation("specification Cache.tla violates %s in SIM_Cache_%s" % (bad, name), replay_lines=[out[-8000:]])
    seen, sched = set(), os.path.join(wd, "sched-%s.ndjson" % name)
    with open(sched, "w") as f:
        for line in out.splitlines():
            m = re.match(r'<<"SCHED", "(.*)">>\s*$', line.strip())
            if not m:
                continue
            js = m.group(1).encode().decode("unicode_escape")
            if js in seen:
                continue
            seen.add(js)
            f.write(js + "\n")
    if not seen:
        raise d.ToolError("TLC enumeration produced no schedule (%s)" % name)
    run.states += r["distinct"]
    run.transitions += r["states"]
    run.notes.setdefault("tlc_runs", []).append({"config": "SIM_Cache_%s: %s" % (name, EXH_NAMES.get(name, "")),
                                                  "distinct_states": r["distinct"], "states_generated": r["states"],
                                                  "complete_behaviours_executed_on_the_real_cache": len(seen), "wall_s": round(r["wall"], 1)})
    cfg = _trace_cfg(run, "trace-" + name, cmp, invs)
    for fl in flavors:
        trace = os.path.join(wd, "%s-%s.ndjson" % (name, fl))
        info = d.vh(["cache", "--sched", sched, "--flavor", fl, "--out", trace], timeout=3000)
        files = d.split_trace(trace, os.path.join(wd, "chunks-%s-%s" % (name, fl)), start_events=("Init",), max_lines=6000)
        res = d.validate_chunks("Cache_Trace.tla", cfg, files, wd, par=12, start_events=("Init",))
        d.report_trace_results(run, res, "%s [every behaviour of SIM_Cache_%s, %s]" % (what, name, fl))
        run.traces += info.get("instances", 0)
        run.evaluations += info.get("lines", 0)
        run.notes["exhaustive_schedules_%s_%s" % (name, fl)] = {k: info.get(k) for k in ("instances", "steps_executed", "steps_skipped", "hung")}
    return len(seen)


FREE_INV = {"FUsedIsSum": ["C01"], "FAgree": ["C06"], "FLen": ["C06"], "FIndexExact": ["C05"], "FReclaimed": ["C05"],
            "FConservation": ["C08"], "FNeverTwice": ["C08"], "FMetrics": ["C17"], "FWorkersGone": ["C12"], "FOpsComplete": ["C12", "C20"]}


def free_stage(d, run, what, combos, est=False, kinds=None, pclear=None):
    """FREE-RUNNING runs: the real background loops (select! + ticker / async tasks + timer on several executors),
    quiescent snapshots checked by Free_Trace.tla against the state predicates of Cache.tla."""
    wd = run.workdir
    for (flavor, ex, nq, nt) in combos:
        n = nt if _thorough(run) else nq
        trace = os.path.join(wd, "free-%s-%s%s.ndjson" % (flavor, ex, "-" + kinds.replace(",", "") if kinds else ""))
        info = d.vh(["free", "--flavor", flavor, "--exec", ex, "--n", n, "--seed", run.seed, "--out", trace] + (["--est"] if est else [])
                    + (["--kinds", kinds] if kinds else []) + (["--pclear", pclear] if pclear else []), timeout=1800)
        r = d.validate_trace("Free_Trace.tla", "Free_Trace.cfg", trace, wd)
        if r["status"] == "accepted":
            run.transitions += r["states"]
        elif r["status"] in ("rejected", "invariant"):
            lines = open(trace).read().splitlines(True)
            bad = min(r.get("line", 1), len(lines))
            st = max([i for i in range(bad) if '"ev":"FInit"' in lines[i]] or [0])
            keep = lines[st:bad]
            run.violation("%s [free-running %s/%s]: %s %s at recorded snapshot %s" % (
                what, flavor, ex, r["status"], r.get("detail"), keep[-1][:300] if keep else ""), replay_lines=keep)
        else:
            d.log(str(r.get("detail"))[-1500:])
            raise d.ToolError("free-running trace validation error")
        if kinds and "par" in kinds:
            # lock discipline of the parallel threads and of the cache's own worker threads, under real parallelism
            lr = d.validate_trace("Locks_Trace.tla", "Locks_Trace.cfg", trace, wd)
            if lr["status"] in ("rejected", "invariant"):
                lines = open(trace).read().splitlines(True)
                bad = min(lr.get("line", 1) + (1 if lr["status"] == "invariant" else 0), len(lines))
                run.violation("lock discipline of Locks.tla broken by free-running threads [%s/%s]: %s %s at %s" % (
                    flavor, ex, lr["status"], lr.get("detail"), lines[bad - 1][:400] if lines else ""), replay_lines=lines[max(0, bad - 3):bad])
            elif lr["status"] != "accepted":
                d.log(str(lr.get("detail"))[-1500:])
                raise d.ToolError("lock trace validation error (free-running)")
        run.traces += n
        run.evaluations += info.get("lines", 0)
        run.notes.setdefault("free_running", []).append({"flavor": flavor, "executor": ex, "instances": n, "snapshots": info.get("lines"), "stuck": info.get("stuck")})


def _lock_programs(trace_files, out_path):
    """the lock-relevant skeleton of every recorded step, in the roles of Locks.tla; distinct programs only"""
    progs = {}
    for tf in trace_files:
        for line in open(tf):
            if '"locks"' not in line:
                continue
            ev = json.loads(line)
            per_thread = {}
            for e in ev.get("locks", []):
                per_thread.setdefault(e["t"], []).append(e)
            for t, es in per_thread.items():
                held = []   # (id, class, role)
                ops = []
                for e in es:
                    if e["k"] in ("want", "got"):
                        if any(h[0] == e["id"] for h in held):
                            role = "same"
                        elif e["c"] == "shard":
                            role = "s2" if any(h[1] == "shard" for h in held) else "s1"
                        else:
                            role = {"policy": "pol"}.get(e["c"], e["c"])
                        held.append((e["id"], e["c"], role))
                        ops.append(["acq", role, e["m"]])
                    else:
                        for j in range(len(held) - 1, -1, -1):
                            if held[j][0] == e["id"]:
                                ops.append(["rel", held[j][2]])
                                del held[j]
                                break
                # a loop over all shards (clear, len) is one acquisition repeated: collapse consecutive repeats of a pair
                out = []
                for o in ops:
                    if len(out) >= 3 and o[0] == "rel" and out[-1][0] == "acq" and out[-2] == o and out[-3] == out[-1]:
                        out.pop()
                        continue
                    out.append(o)
                if out:
                    progs.setdefault(json.dumps(out), ev.get("ev"))
    with open(out_path, "w") as f:
        for p, src in sorted(progs.items()):
            f.write(json.dumps({"ops": json.loads(p), "from": src}) + "\n")
    return len(progs)


def lock_stage(d, run, combos, catalogue=False):
    """LOCK LEVEL (Locks.tla): every acquisition recorded by the traced locks obeys the discipline (Locks_Trace); the
    critical sections observed in the real code, composed by TLC under every interleaving with parking_lot's fair
    read-write semantics, never deadlock (MC_Locks_observed); the transcribed catalogue does not either (MC_Locks);
    the pre-fix get_ttl does (MC_Locks_witness: the check bites)."""
    wd = run.workdir
    files = []
    for (prof, flavor, nq, nt) in combos:
        n = nt if _thorough(run) else nq
        trace = os.path.join(wd, "locks-%s-%s.ndjson" % (prof, flavor))
        info = d.vh(["cache", "--profile", prof, "--flavor", flavor, "--n", n, "--seed", run.seed, "--locks", "--out", trace], timeout=1800)
        r = d.validate_trace("Locks_Trace.tla", "Locks_Trace.cfg", trace, wd)
        if r["status"] == "accepted":
            run.transitions += r["states"]
        elif r["status"] in ("rejected", "invariant"):
            lines = open(trace).read().splitlines(True)
            # Locks_Trace evaluates line l in the state that has not consumed it yet: state number = line number
            bad = min(r.get("line", 1) + (1 if r["status"] == "invariant" else 0), len(lines))
            st = max([i for i in range(bad) if '"ev":"Init"' in lines[i]] or [0])
            keep = lines[st:bad]
            run.violation("lock discipline of Locks.tla broken by the real code [profile %s, %s]: %s %s at recorded event %s" % (
                prof, flavor, r["status"], r.get("detail"), keep[-1][:400] if keep else ""), replay_lines=keep)
        else:
            d.log(str(r.get("detail"))[-1500:])
            raise d.ToolError("lock trace validation error")
        files.append(trace)
        run.traces += n
        run.evaluations += info.get("lines", 0)
    progs = os.path.join(wd, "lock-programs.ndjson")
    np = _lock_programs(files, progs)
    if np == 0:
        raise d.ToolError("vacuous run: no lock program recorded")
    if catalogue or _thorough(run):
        cat = d.tlc_mc("MC_Locks.tla", "MC_Locks.cfg", wd, workers=8, timeout=1800)
        run.add_mc(cat, "MC_Locks (catalogue of critical sections transcribed from the code, 3 threads, fair read-write locks: no deadlock, discipline)")
        if cat["violated"]:
            run.violation("Locks.tla: the catalogue violates %s" % cat["violated"], replay_lines=[cat["out"][-6000:]])
    obs = d.tlc_mc("MC_Locks_obs.tla", "MC_Locks_observed.cfg", wd, workers=8, timeout=1800, env={"PROGRAMS": progs})
    run.add_mc(obs, "MC_Locks_observed (%d distinct critical-section programs recorded from the real code, composed under every interleaving: no deadlock, discipline)" % np)
    if obs["violated"]:
        run.violation("the critical sections recorded from the real code can deadlock / break the lock discipline: %s" % obs["violated"],
                      replay_lines=[open(progs).read(), obs["out"][-6000:]])
    w = d.tlc_mc("MC_Locks.tla", "MC_Locks_witness.cfg", wd, workers=2, timeout=600)
    if "<deadlock>" not in w["violated"]:
        raise d.ToolError("MC_Locks_witness: the expected deadlock (second read lock behind a waiting writer) was not found")
    if catalogue or _thorough(run):
        # the callers' side of the contract: a thread that keeps a ValueRef alive across a writing call can deadlock
        for cfg in ("MC_Locks_guard.cfg", "MC_Locks_guard_same.cfg"):
            g = d.tlc_mc("MC_Locks.tla", cfg, wd, workers=2, timeout=600)
            if "<deadlock>" not in g["violated"]:
                raise d.ToolError("%s: the expected deadlock of a caller that keeps its guard across a writing call was not found" % cfg)
        run.notes["lock_caller_contract"] = ("MC_Locks_guard*.cfg deadlock, as expected: the catalogue is deadlock-free for callers that "
                                             "drop a ValueRef / ValueRefMut before their next call on the cache")
    run.notes["lock_programs"] = np
    run.notes["lock_witness"] = "MC_Locks_witness.cfg deadlocks, as expected (get_ttl before fix D10)"


def _need(d, hist, names):
    # vacuity guard -- only meaningful when nothing was found (a deviation can make a branch unreachable)
    if getattr(d, "_current_run", None) is not None and d._current_run.violations:
        return
    for n in names:
        if hist.get(n, 0) == 0:
            raise d.ToolError("vacuous run: no %s event recorded" % n)


BASE_ASSUME = ["events are recorded at the yield points of hooks H4 between critical sections (never inside one); "
               "interleavings inside a critical section are not explored",
               "TLC explores Cache.tla exhaustively only for the small constants named in tlc_runs",
               "behaviours that contain the signature of a known finding (known_findings.json) are exempt from the "
               "affected invariants from that point on"]


def c02(d, run):
    h = cache_stage(d, run, "real cache deviates from Cache.tla (lookup results / resident values)",
                    ["conc", "seq"],
                    [("conc", "sync", 30, 300), ("conc", "async", 15, 120), ("conc_clear", "sync", 15, 150), ("seq", "sync", 15, 100), ("seq_veto", "sync", 10, 80), ("ttl", "sync", 10, 80)],
                    ["store", "out", "chan"], ["ResidentOwned", "NeverTwice", "NothingLost"], nontrivial=("Get", "GetMut"))
    sim_stage(d, run, "real cache deviates from Cache.tla (lookup results / resident values)", ["store", "out", "chan"],
              ["ResidentOwned", "NeverTwice", "NothingLost"], 30, 300)
    if _thorough(run):
        exh_stage(d, run, "real cache deviates from Cache.tla (lookup results / resident values)", "exh_q", ["store", "out", "chan"],
                  ["ResidentOwned", "NeverTwice", "NothingLost"])
    free_stage(d, run, "the real cache violates a state predicate of Cache.tla at a quiescent point (incl. lookup guards held across clear(); "
               "parallel writers / get_mut on colliding keys)",
               [("sync", "thread", 8, 40), ("async", "thread", 4, 24)], kinds="norm,par,norm,drop")
    _need(d, h, ["Get", "GetMut", "InsBegin", "RemStore", "PNewStore"])
    run.nontrivial = len(getattr(run, "_distinct", ()))
    run.rule = ("one evaluation = one recorded critical section of the real cache under the baton scheduler; non-trivial = "
                "lookups (get/get_mut), each compared with the value the specification says is visible for that key at that point")
    run.assumptions = BASE_ASSUME
    _known(d, run, "D7")


def c06(d, run):
    h = cache_stage(d, run, "real cache deviates from Cache.tla (resident entries vs policy charges)",
                    ["conc", "seq", "ttl"],
                    [("conc", "sync", 30, 300), ("conc", "async", 15, 120), ("evict", "sync", 25, 200), ("seq", "sync", 15, 150), ("ttl", "sync", 10, 80), ("conc_clear", "sync", 10, 100)],
                    ["store", "costs", "chan"], ["Agree", "UsedIsSum"], nontrivial=("End", "WaitRet", "PWait", "PDelPolicy", "PVictim", "PNewStore"))
    sim_stage(d, run, "real cache deviates from Cache.tla (resident entries vs policy charges)", ["store", "costs", "chan"],
              ["Agree", "UsedIsSum"], 30, 300)
    exh_stage(d, run, "real cache deviates from Cache.tla (resident entries vs policy charges)", "exh_q", ["store", "costs", "chan"], ["Agree", "UsedIsSum"])
    if _thorough(run):
        exh_stage(d, run, "real cache deviates from Cache.tla (resident entries vs policy charges)", "exh", ["store", "costs", "chan"], ["Agree", "UsedIsSum"])
    free_stage(d, run, "the real cache violates Resident = Charged at a quiescent point (guards held across evictions, parallel remove / insert bursts)",
               [("sync", "thread", 6, 30), ("async", "thread", 4, 24)], kinds="norm,par,norm")
    _need(d, h, ["PNewAdd", "PNewStore", "PDel", "PDelPolicy", "PVictim", "PCleanupKey", "End"])
    run.nontrivial = len(getattr(run, "_distinct", ()))
    run.rule = ("one evaluation = one recorded critical section; non-trivial = quiescent points reached (end of run after drain, "
                "wait() returns) at which TLC evaluates Resident = Charged on the recorded state")
    run.assumptions = BASE_ASSUME
    _known(d, run, "D7")


def c08(d, run):
    h = cache_stage(d, run, "real cache deviates from Cache.tla (callbacks / value conservation)",
                    ["conc", "seq", "ttl"],
                    [("conc", "sync", 30, 300), ("conc", "async", 15, 120), ("evict", "sync", 25, 200), ("seq", "sync", 15, 150), ("seq_veto", "sync", 10, 60), ("ttl", "sync", 10, 80), ("ttl_conc", "sync", 10, 80)],
                    ["store", "cbs", "chan", "costs"], ["Conservation", "NeverTwice", "NothingLost", "ResidentOwned"], nontrivial=("PVictim", "PDelPolicy", "PCleanupDone", "RemStore", "PCleanItem", "PNewStore", "InsBegin"))
    sim_stage(d, run, "real cache deviates from Cache.tla (callbacks / value conservation)", ["store", "cbs", "chan", "costs"],
              ["Conservation", "NeverTwice", "NothingLost", "ResidentOwned"], 30, 300)
    if _thorough(run):
        exh_stage(d, run, "real cache deviates from Cache.tla (callbacks / value conservation)", "exh", ["store", "cbs", "chan", "costs"],
                  ["Conservation", "NeverTwice", "NothingLost", "ResidentOwned"])
    # a value can also go missing because a section waits for a lock for ever, or gives up on one: lock level and real threads
    lock_stage(d, run, LOCK_TTL)
    free_stage(d, run, "the real cache loses a value at a quiescent point (guards held by other threads across evictions / inserts into the "
               "same shard; parallel writers switching a key between TTL and no TTL)",
               [("sync", "thread", 6, 30), ("async", "thread", 4, 24)], kinds="norm,par,norm")
    _need(d, h, ["PNewStore", "PVictim", "PDelPolicy", "PCleanupDone", "RemStore"])
    run.nontrivial = len(getattr(run, "_distinct", ()))
    run.rule = ("one evaluation = one recorded critical section, with the callbacks (kind, value id, cost) fired inside it; "
                "non-trivial = sections that can hand a value to a callback; TLC compares them with the specification's and "
                "evaluates conservation at every quiescent state")
    run.assumptions = BASE_ASSUME
    _known(d, run, "D7")


def _liveness(d, run):
    r = d.tlc_mc("MC_Cache.tla", "MC_Cache_live.cfg", run.workdir, workers=4, timeout=1800)
    run.add_mc(r, "MC_Cache_live (liveness under weak fairness of processor and client continuation steps: every started call "
                  "returns (no exemption any more: D6 is repaired); after close() both workers stop; after every handle was dropped without close() both "
                  "workers stop; 2 clients x 2 calls of insert/wait/clear/close, handles dropped at any idle point)")
    if r["violated"]:
        run.violation("specification Cache.tla violates liveness %s in MC_Cache_live.cfg" % r["violated"], replay_lines=[r["out"][-8000:]])



def _stopwait(d, run):
    """the repair of D6 at the grain of single memory operations (StopWait.tla): flag, sweep, disconnect on the processor against
    queue, look at the flag, block on the waiter -- holds for the order the code uses, fails for the three alternatives"""
    r = d.tlc_mc("StopWait.tla", "StopWait_fixed.cfg", run.workdir, workers=2, timeout=600)
    run.add_mc(r, "StopWait_fixed (stopping processor: raise flag / drop buffered markers / drop receiver, against 2 waiters: queue "
                  "marker / look at flag / block: no orphan, every waiter returns, every interleaving)")
    if r["violated"]:
        run.violation("specification StopWait.tla (the protocol of the D6 repair) violates %s" % r["violated"], replay_lines=[r["out"][-6000:]])
    a = d.tlc_mc("StopWait.tla", "StopWait_closefirst.cfg", run.workdir, workers=2, timeout=600)
    run.add_mc(a, "StopWait_closefirst (AsyncCache: close the channel, then drop what is buffered)")
    if a["violated"]:
        run.violation("specification StopWait.tla (AsyncCache's order: close, then sweep) violates %s" % a["violated"], replay_lines=[a["out"][-6000:]])
    for v in ("noflag", "flaglate", "nosweep"):
        w = d.tlc_mc("StopWait.tla", "StopWait_%s.cfg" % v, run.workdir, workers=2, timeout=600)
        if not w["violated"]:
            raise d.ToolError("StopWait_%s: the expected orphaned waiter was not found (the check would not bite)" % v)
    run.notes["stopwait_witnesses"] = "StopWait_{noflag,flaglate,nosweep}.cfg leave a waiter blocked, as expected"


def _drain_liveness(d, run):
    """close() under sustained load (DrainLive.tla): holds for the bounded drain (the code after fix D9); the unbounded drain is
    run as a witness that the liveness check bites -- TLC must find the lasso in which the processor never leaves the drain"""
    r = d.tlc_mc("DrainLive.tla", "DrainLive_bounded.cfg", run.workdir, workers=2, timeout=600)
    run.add_mc(r, "DrainLive_bounded (producers that never stop, buffer of 3, a closing client: close() returns and the drain ends, "
                  "under WF of the processor and SF of the stop / clear arms of its select!)")
    if r["violated"]:
        run.violation("specification DrainLive.tla violates %s in DrainLive_bounded.cfg" % r["violated"], replay_lines=[r["out"][-8000:]])
    w = d.tlc_mc("DrainLive.tla", "DrainLive_unbounded.cfg", run.workdir, workers=2, timeout=600)
    if not any(v.startswith("<temporal") for v in w["violated"]):
        raise d.ToolError("DrainLive_unbounded: the witness lasso (drain until the buffer is found empty never ends) was not found")
    run.notes["drain_witness"] = "DrainLive_unbounded.cfg: %s, as expected (the pre-fix drain loop)" % w["violated"]


def c10(d, run):
    _liveness(d, run)
    _stopwait(d, run)
    h = cache_stage(d, run, "real cache deviates from Cache.tla (wait barrier / termination)",
                    ["life", "conc"],
                    [("life", "sync", 40, 300), ("life", "async", 15, 120), ("conc_clear", "sync", 25, 150), ("conc", "sync", 15, 100), ("conc", "async", 15, 100)],
                    ["chan", "out", "store", "costs"], ["NoOrphan", "Agree"], nontrivial=("WaitSend", "WaitBlock", "WaitRet", "PWait", "PCleanItem", "PStop"))
    sim_stage(d, run, "real cache deviates from Cache.tla (wait barrier / termination)", ["chan", "out", "store", "costs"],
              ["NoOrphan", "Agree"], 40, 400)
    lock_stage(d, run, LOCK_LIFE)
    free_stage(d, run, "a wait() racing close() does not return (real threads, 150 fresh caches per instance)",
               [("sync", "thread", 2, 10), ("async", "thread", 2, 10), ("async", "pool", 2, 10)], kinds="close")
    if _thorough(run):
        exh_stage(d, run, "real cache deviates from Cache.tla (wait barrier / termination)", "exh_life", ["chan", "out", "store", "costs"],
                  ["NoOrphan", "Agree"], flavors=("sync", "async"))
        exh_stage(d, run, "real cache deviates from Cache.tla (wait barrier / termination)", "exh", ["chan", "out", "store", "costs"],
                  ["NoOrphan", "Agree"])
    _need(d, h, ["WaitSend", "WaitBlock", "PWait", "PCleanItem", "PStop"])
    run.nontrivial = len(getattr(run, "_distinct", ()))
    run.rule = ("non-trivial = wait() calls; each must return exactly when the specification releases its marker, with the "
                "state at return equal to the specification's (barrier); a waiter left blocked at the end of a run (event Hung) is a violation")
    run.assumptions = BASE_ASSUME + ["liveness on the implementation side is judged at the end of each run: after everything that can "
                                     "run has run, a client still inside wg.wait() is reported as hung"]


def c12(d, run):
    _liveness(d, run)
    _stopwait(d, run)
    _drain_liveness(d, run)
    lock_stage(d, run, LOCK_LIFE)
    h = cache_stage(d, run, "real cache deviates from Cache.tla (close protocol)",
                    ["life"],
                    [("life", "sync", 50, 400), ("life", "async", 20, 150)],
                    ["life", "out", "chan", "store"], ["NoOrphan"], nontrivial=("ClrSend", "ClsStopSend", "ClsStopFail", "ClsPol", "ClsPolSend", "ClsPolFlag", "ClsFlag", "PStop", "LStop"))
    sim_stage(d, run, "real cache deviates from Cache.tla (close protocol)", ["life", "out", "chan", "store"], ["NoOrphan"], 40, 400,
              flavors=("sync", "async"))
    free_stage(d, run, "the real background loops violate a state predicate of Cache.tla (worker termination, close() under load)",
               [("sync", "thread", 6, 30), ("async", "thread", 6, 30)], kinds="norm,par,drop,tiny,close,close")
    if _thorough(run):
        exh_stage(d, run, "real cache deviates from Cache.tla (close protocol)", "exh_life", ["life", "out", "chan", "store"], ["NoOrphan"],
                  flavors=("sync", "async"))
    _need(d, h, ["ClsStopSend", "PStop", "LStop", "ClsFlag", "ClsStopFail"])
    run.nontrivial = len(getattr(run, "_distinct", ()))
    run.rule = ("non-trivial = close()/clear() calls racing other operations; every result after close, every blocking point "
                "and the exit of both workers must follow the specification")
    run.assumptions = BASE_ASSUME + ["select! fairness: a continuously ready arm is eventually taken (the harness takes every ready arm)"]


def _metrics_unbounded(d, run):
    """MetricsWrapInd.tla: the counters' arithmetic at the code's real width (2^64, deltas up to 2^63-1) for ANY number of operations --
    an inductive invariant discharged by Apalache (Init => IndInv; IndInv /\\ Next => IndInv'), and the plain-sum witness."""
    base = d.apalache("MetricsWrapInd.tla", run.workdir, "IndInv", 0)
    step = d.apalache("MetricsWrapInd.tla", run.workdir, "IndInv", 1, init="IndInit")
    wit = d.apalache("MetricsWrapInd.tla", run.workdir, "PlainSumFits", 4)
    note = {"module": "MetricsWrapInd.tla (stripes of width 2^64, deltas 1..2^63-1, no bound on the number of operations)",
            "base_case": base["status"], "inductive_step": step["status"],
            "plain_sum_witness": {"error": "found (as expected, D13)", "ok": "NOT found", "unavailable": "unavailable"}[wit["status"]],
            "wall_s": round(base["wall"] + step["wall"] + wit["wall"], 1)}
    run.notes["apalache_inductive"] = note
    for nm, r in (("base case", base), ("inductive step", step)):
        if r["status"] == "error":
            run.violation("MetricsWrapInd.tla: IndInv fails its %s (the wrapping sum of two's-complement stripes is not the net)" % nm,
                          replay_lines=[r["out"][-4000:]])
    if wit["status"] == "ok":
        raise d.ToolError("MetricsWrapInd: the expected overflow of a plain sum (defect D13) was not found by Apalache")


def c17(d, run):
    # the counters' arithmetic: striped, two's-complement deltas, wrapping sum (what Cache.tla abstracts into integers)
    mw = d.tlc_mc("MetricsWrap.tla", "MetricsWrap.cfg", run.workdir, workers=2, timeout=600)
    run.add_mc(mw, "MetricsWrap (3 stripes of width 16, deltas +-1..5, resets, <= 5 operations: the wrapping sum of the stripes is the net since the reset)")
    if mw["violated"]:
        run.violation("MetricsWrap.tla violates %s" % mw["violated"], replay_lines=[mw["out"][-4000:]])
    pw = d.tlc_mc("MetricsWrap.tla", "MetricsWrap_plain.cfg", run.workdir, workers=2, timeout=600)
    if "PlainSumFits" not in pw["violated"]:
        raise d.ToolError("MetricsWrap_plain: the expected overflow of a plain sum (defect D13) was not found")
    run.notes["metrics_witness"] = "MetricsWrap_plain.cfg: a plain (non-wrapping) sum of the stripes overflows, as expected (D13)"
    _metrics_unbounded(d, run)
    mc = d.tlc_mc("MC_Histogram.tla", "MC_Histogram.cfg", run.workdir, workers=2)
    run.add_mc(mc, "MC_Histogram (bounds 2,4,8; values on/around bounds; <= 6 updates / clears: count = sum of buckets, percentile rule)")
    if mc["violated"]:
        run.violation("Histogram.tla violates %s" % mc["violated"], replay_lines=[mc["out"][-4000:]])
    hb = d.apalache("HistogramInd.tla", run.workdir, "IndInv", 0)
    hs = d.apalache("HistogramInd.tla", run.workdir, "IndInv", 1, init="IndInit")
    run.notes["apalache_inductive_histogram"] = {
        "module": "HistogramInd.tla (bounds 2,4,8; values from all of 0..2^63-1; no bound on the number of updates / clears: count = sum of buckets, min <= max)",
        "base_case": hb["status"], "inductive_step": hs["status"], "wall_s": round(hb["wall"] + hs["wall"], 1)}
    for nm, r in (("base case", hb), ("inductive step", hs)):
        if r["status"] == "error":
            run.violation("HistogramInd.tla: IndInv fails its %s" % nm, replay_lines=[r["out"][-4000:]])
    ht = os.path.join(run.workdir, "histogram.ndjson")
    hi = d.vh(["histogram", "--out", ht, "--seed", run.seed, "--tier", run.tier])
    res = d.validate_chunks("Histogram_Trace.tla", "Histogram_Trace.cfg", [ht], run.workdir, par=1, start_events=("new",))
    d.report_trace_results(run, res, "real Histogram deviates from Histogram.tla")
    run.traces += hi.get("instances", 0)
    run.evaluations += hi.get("lines", 0)
    _distinct_add(run, ht, ("update", "clear"))
    h = cache_stage(d, run, "real cache deviates from Cache.tla (metrics)",
                    ["seq", "conc"],
                    [("seq", "sync", 20, 150), ("conc", "sync", 20, 200), ("evict", "sync", 20, 150), ("seq_internal", "sync", 10, 60), ("ttl", "sync", 10, 60),
                     ("conc", "async", 10, 80)],
                    ["met", "costs", "chan", "store"], ["MetricsLaws", "MetricsCounts", "UsedIsSum"], nontrivial=("Get", "GetMut", "PNewAdd", "PNewStore", "PUpd", "PVictim", "PDelPolicy", "ClrMetrics", "InsSend"))
    free_stage(d, run, "the real loops / parallel clients violate a conservation law of the counters",
               [("sync", "thread", 4, 24), ("async", "thread", 4, 24), ("async", "local", 6, 30)], kinds="norm,par,norm", pclear=14)
    _need(d, h, ["Get", "PNewAdd", "PUpd", "PVictim", "ClrMetrics"])
    run.nontrivial = len(getattr(run, "_distinct", ()))
    run.rule = ("every counter is compared after every recorded critical section; non-trivial = quiescent points at which TLC "
                "evaluates the conservation laws")
    run.assumptions = BASE_ASSUME
    _known(d, run, "D7")


def c01(d, run):
    trace, info = _policy_stage(d, run, "real LFUPolicy cost accounting deviates from Policy.tla")
    cov = info.get("cov", {})
    _distinct_add(run, trace, ("add", "update", "remove", "setmax", "clear"))
    h = cache_stage(d, run, "real cache deviates from Cache.tla (charged cost vs max_cost)",
                    ["seq", "conc"],
                    [("evict", "sync", 25, 200), ("seq_internal", "sync", 10, 80), ("conc", "sync", 15, 150), ("evict", "async", 10, 100)],
                    ["costs", "chan", "store"], ["UsedIsSum", "Bounded"], nontrivial=("PNewAdd", "PUpd", "SetMax", "PVictim", "PDelPolicy", "ClrPolicy"))
    _need(d, h, ["PNewAdd", "PUpd", "SetMax", "PVictim"])
    run.nontrivial = len(getattr(run, "_distinct", ()))
    run.rule = ("policy level: every add/update/remove/clear/update_max_cost call of the real LFUPolicy with the full (key -> charge) "
                "map; cache level: every processor / client section with charges, used and max_cost; non-trivial = steps that change "
                "the charged total or max_cost; TLC evaluates used = sum of charges and used <= max_cost + slack on every recorded state")
    run.assumptions = BASE_ASSUME


def c03(d, run):
    h = cache_stage(d, run, "real cache deviates from Cache.tla (TTL visibility)",
                    ["ttl"],
                    [("ttl", "sync", 30, 300), ("ttl_fine", "sync", 20, 150), ("ttl_conc", "sync", 25, 200), ("ttl", "async", 10, 80)],
                    ["store", "out", "em", "vttl"], ["IndexExact", "ResidentOwned"], nontrivial=("Get", "GetMut", "GetTtl"))
    # get_ttl (and every other lookup) returns: lock level, and parallel readers / writers of one key for real
    lock_stage(d, run, LOCK_TTL)
    free_stage(d, run, "parallel get / get_ttl / writers of one key do not all return (free-running threads)",
               [("sync", "thread", 2, 12), ("async", "thread", 2, 12)], kinds="par")
    _need(d, h, ["Get", "GetTtl", "GetMut", "Advance", "PCleanupKey"])
    run.nontrivial = len(getattr(run, "_distinct", ()))
    run.rule = ("virtual clock in milliseconds; non-trivial = get / get_mut / get_ttl calls, whose visibility and remaining ttl are "
                "compared with the specification's arithmetic on (creation instant, ttl, now); ttls 1 ms .. 1 h, advances straddling "
                "second boundaries")
    run.assumptions = BASE_ASSUME + ["time is the hooks' virtual clock (H1); real-time effects of SystemTime are out of scope"]


def c04(d, run):
    h = cache_stage(d, run, "real cache deviates from Cache.tla (below capacity the cache is an exact map)",
                    ["seq", "ttl"],
                    [("below", "sync", 30, 250), ("below_ttl", "sync", 30, 250), ("below_ttl", "async", 10, 80)],
                    ["store", "em", "costs", "out", "cbs", "chan"], ["NoLoss", "IndexExact", "Agree", "Conservation"], nontrivial=("InsBegin", "Get", "RemStore", "PCleanupKey"))
    _need(d, h, ["InsBegin", "Get", "RemStore", "ClrSend", "PTick", "Advance", "PCleanupKey"])
    run.nontrivial = len(getattr(run, "_distinct", ()))
    run.rule = ("sequential histories (processor drained between calls) whose total demanded cost fits in max_cost: inserts with and "
                "without TTL, re-inserts switching between them, removes, clears, clock advances, ticks at every interval; non-trivial = "
                "inserts and lookups; TLC evaluates NoLoss (nothing refused, evicted or lost; resident set = demanded set) on every "
                "quiescent recorded state and compares every lookup with the specification")
    run.assumptions = BASE_ASSUME


LOCK_TTL = [("ttl", "sync", 6, 40), ("ttl_conc", "sync", 4, 30), ("ttl", "async", 4, 20)]
LOCK_LIFE = [("life", "sync", 6, 40), ("conc_clear", "sync", 6, 40), ("ring_close", "sync", 6, 40), ("life", "async", 4, 20)]
LOCK_CFG = [("cfg", "sync", 10, 70), ("evict", "async", 4, 30), ("cond", "sync", 4, 30), ("ring", "sync", 3, 20), ("ttl", "sync", 4, 20)]


def c05(d, run):
    h = cache_stage(d, run, "real cache deviates from Cache.tla (expiry index and cleanup)",
                    ["ttl"],
                    [("ttl", "sync", 30, 300), ("ttl_fine", "sync", 20, 150), ("ttl_conc", "sync", 25, 200), ("ttl", "async", 10, 80)],
                    ["store", "em", "costs", "cbs", "chan"], ["IndexExact", "Agree", "UsedIsSum", "NeverTwice", "Conservation"], nontrivial=("PTick", "PCleanupKey", "PCleanupDone"))
    free_stage(d, run, "the real background loops violate a state predicate of Cache.tla (bounded reclaim delay, exact index; "
               "one instance in four with the builder's default cleanup interval)",
               [("sync", "thread", 4, 32), ("async", "thread", 4, 32)], kinds="norm,dflt,norm,tiny")
    _need(d, h, ["PTick", "PCleanupKey", "PCleanupDone", "Advance", "InsBegin"])
    run.nontrivial = len(getattr(run, "_distinct", ()))
    run.rule = ("non-trivial = keys handled by a cleanup sweep; after every section the expiration buckets, resident entries, "
                "charges and on_evict records of the implementation must equal the specification's, whose sweep takes every due bucket")
    run.assumptions = BASE_ASSUME + ["ticks are fired by the harness at arbitrary instants of the virtual clock (the real ticker is parked)"]


def c09(d, run):
    h = cache_stage(d, run, "real cache deviates from Cache.tla (conditional writes)",
                    ["seq"],
                    [("seq_veto", "sync", 30, 200), ("seq_veto5", "sync", 15, 100), ("cond", "sync", 20, 150), ("cond_internal", "sync", 10, 80),
                     ("seq_veto", "async", 10, 60)],
                    ["store", "em", "out", "chan", "cbs", "costs"], ["ResidentOwned", "IndexExact", "CondNeverCreates", "ChargeFormula"], nontrivial=("InsBegin",))
    free_stage(d, run, "parallel writers of one key: the validator's verdicts and the replacements do not form a chain of InsBegin steps",
               [("sync", "thread", 4, 24), ("async", "thread", 2, 12)], kinds="par")
    _need(d, h, ["InsBegin", "PNewStore"])
    run.nontrivial = len(getattr(run, "_distinct", ()))
    run.rule = ("non-trivial = insert / insert_if_present calls under vetoing validators (asymmetric and symmetric predicates over "
                "value ids); result, resident value, deadline and buffer effect are compared with the specification after the call")
    run.assumptions = BASE_ASSUME


def c11(d, run):
    h = cache_stage(d, run, "real cache deviates from Cache.tla (clear)",
                    ["conc", "ttl", "seq"],
                    [("conc_clear", "sync", 40, 300), ("ttl_clear", "sync", 20, 150), ("seq", "sync", 10, 80), ("conc_clear", "async", 10, 80)],
                    ALL_CMP, ["IndexExact", "Agree", "UsedIsSum", "MetricsLaws", "ResidentOwned", "ClearEmpties"], nontrivial=("ClrSend", "ClrPolicy", "ClrStore", "ClrMetrics", "PClrTake", "PCleanItem"))
    sim_stage(d, run, "real cache deviates from Cache.tla (clear)", ALL_CMP,
              ["IndexExact", "Agree", "UsedIsSum", "MetricsLaws", "ResidentOwned", "ClearEmpties"], 30, 300, flavors=("sync", "async"))
    exh_stage(d, run, "real cache deviates from Cache.tla (clear)", "exh_q", ALL_CMP,
              ["IndexExact", "Agree", "UsedIsSum", "MetricsLaws", "ResidentOwned", "ClearEmpties"])
    if _thorough(run):
        exh_stage(d, run, "real cache deviates from Cache.tla (clear)", "exh", ALL_CMP,
                  ["IndexExact", "Agree", "UsedIsSum", "MetricsLaws", "ResidentOwned", "ClearEmpties"], flavors=("sync", "async"))
    free_stage(d, run, "the real cache violates a state predicate of Cache.tla at a quiescent point (clear() with a lookup guard held by "
               "another thread / operations issued straight after clear())",
               [("sync", "thread", 8, 40), ("async", "thread", 4, 24), ("async", "local", 6, 30)], kinds="norm,norm,par", pclear=14)
    _need(d, h, ["ClrSend", "ClrStore", "ClrMetrics", "PClrTake", "PCleanItem"])
    run.nontrivial = len(getattr(run, "_distinct", ()))
    run.rule = ("non-trivial = clear() calls with 0..buffer-size items pending, the processor and a second client interleaved at every "
                "section; after each section store, buckets, charges and every metrics counter must equal the specification's")
    run.assumptions = BASE_ASSUME
    _known(d, run, "D7")


def c16(d, run):
    h = cache_stage(d, run, "real cache deviates from Cache.tla (charged cost formula)",
                    ["seq"],
                    [("seq_internal", "sync", 25, 200), ("seq", "sync", 15, 100), ("seq_coster0", "sync", 10, 60), ("ttl", "sync", 10, 60),
                     ("evict", "sync", 10, 80), ("seq_internal", "async", 10, 60), ("ttl", "async", 10, 60)],
                    ["costs", "cbs", "chan", "store"], ["UsedIsSum", "Agree", "ChargeFormula"], nontrivial=("PNewAdd", "PUpd", "PVictim", "PCleanupDone"))
    _need(d, h, ["PNewAdd", "PUpd", "PVictim"])
    run.nontrivial = len(getattr(run, "_distinct", ()))
    run.rule = ("non-trivial = policy applications of New / Update items: the charge must be explicit cost (or Coster value when 0) + "
                "the per-entry overhead read from the implementation (size_of StoreItem) unless ignored; evict / reject records carry it")
    run.assumptions = BASE_ASSUME


def c18(d, run):
    mc = d.tlc_mc("MC_KeyHash.tla", "MC_KeyHash.cfg", run.workdir, workers=2)
    run.add_mc(mc, "MC_KeyHash (two's-complement limb arithmetic over a grid of boundary limb values)")
    if mc["violated"]:
        run.violation("KeyHash.tla arithmetic violates %s" % mc["violated"], replay_lines=[mc["out"][-4000:]])
    r = d.vh(["keyhash", "--out", os.path.join(run.workdir, "keyhash.ndjson"), "--seed", run.seed, "--tier", run.tier])
    files = [os.path.join(run.workdir, "keyhash.ndjson")]
    res = d.validate_chunks("KeyHash_Trace.tla", "KeyHash_Trace.cfg", files, run.workdir, par=1, start_events=("new",))
    d.report_trace_results(run, res, "KeyBuilder deviates from KeyHash.tla")
    run.traces += 1
    run.evaluations += r.get("lines", 0)
    h = cache_stage(d, run, "real cache deviates from Cache.tla (colliding keys)",
                    ["seq"],
                    [("coll", "sync", 30, 200), ("coll_conc", "sync", 15, 100), ("coll_lag", "sync", 20, 120), ("coll", "async", 10, 60), ("coll_lag", "async", 8, 60)],
                    ["store", "out", "costs", "cbs", "chan"], ["ResidentOwned", "Agree", "Conservation"], nontrivial=("InsBegin", "Get", "GetMut", "GetTtl", "RemStore", "PDel"))
    _need(d, h, ["InsBegin", "Get", "RemStore", "PDel"])
    run.nontrivial = len(getattr(run, "_distinct", ()))
    run.rule = ("(a) build_key of every supported integer type over boundary and random values and of String/&str pairs, checked by "
                "KeyHash_Trace (function consistency, identity on limbs); (b) histories over pairs of keys forced to share an index: "
                "every result and state compared with Cache.tla, in which keys are (index, conflict) pairs")
    run.assumptions = BASE_ASSUME


def ring_stage(d, run, combos):
    """lookup recording of the given (profile, flavour) runs validated by Ring_Trace.tla"""
    wd = run.workdir
    hist = {}
    for (prof, flavor, nq, nt) in combos:
        n = nt if _thorough(run) else nq
        trace = os.path.join(wd, "ring-%s-%s.ndjson" % (prof, flavor))
        info = d.vh(["cache", "--profile", prof, "--flavor", flavor, "--n", n, "--seed", run.seed, "--out", trace], timeout=1800)
        for k, v in info.get("hist", {}).items():
            hist[k] = hist.get(k, 0) + v
        files = d.split_trace(trace, os.path.join(wd, "chunks-ring-%s-%s" % (prof, flavor)), start_events=("Init",), max_lines=1500)
        res = d.validate_chunks("Ring_Trace.tla", "Ring_Trace.cfg", files, wd, par=8, start_events=("Init",))
        d.report_trace_results(run, res, "real lookup recording deviates from Ring.tla [profile %s, %s]" % (prof, flavor))
        _distinct_add(run, trace, ("Get", "GetMut", "LRecv"))
        run.traces += n
        run.evaluations += info.get("events", 0)
    return hist


def c15(d, run):
    wd = run.workdir
    for cfg, name in (("MC_Ring_b0q3.cfg", "buffer_items 0, queue 3"), ("MC_Ring_b1q3.cfg", "buffer_items 1, queue 3"),
                      ("MC_Ring_b2q1.cfg", "buffer_items 2, queue 1"), ("MC_Ring_b2q3.cfg", "buffer_items 2, queue 3"),
                      ("MC_Ring_b3q0.cfg", "buffer_items 3, unbounded queue (async)")):
        r = d.tlc_mc("MC_Ring.tla", cfg, wd, workers=6)
        run.add_mc(r, "MC_Ring (%s; 2 keys; <= 9 lookups / worker steps / clear / close)" % name)
        if r["violated"]:
            run.violation("specification Ring.tla violates %s in %s" % (r["violated"], cfg), replay_lines=[r["out"][-6000:]])
    run.exhaustive = True
    hist = {}
    for (prof, flavor, nq, nt) in [("ring", "sync", 30, 250), ("ring", "async", 15, 120), ("ring_close", "sync", 15, 100), ("cfg", "sync", 20, 140)]:
        n = nt if _thorough(run) else nq
        trace = os.path.join(wd, "ring-%s-%s.ndjson" % (prof, flavor))
        info = d.vh(["cache", "--profile", prof, "--flavor", flavor, "--n", n, "--seed", run.seed, "--out", trace], timeout=1800)
        for k, v in info.get("hist", {}).items():
            hist[k] = hist.get(k, 0) + v
        files = d.split_trace(trace, os.path.join(wd, "chunks-%s-%s" % (prof, flavor)), start_events=("Init",), max_lines=1500)
        res = d.validate_chunks("Ring_Trace.tla", "Ring_Trace.cfg", files, wd, par=8, start_events=("Init",))
        d.report_trace_results(run, res, "real lookup recording deviates from Ring.tla [profile %s, %s]" % (prof, flavor))
        _distinct_add(run, trace, ("Get", "GetMut", "LRecv"))
        run.traces += n
        run.evaluations += info.get("events", 0)
        if not run.samples:
            run.samples = [{k: v for k, v in s.items() if k != "post"} if isinstance(s, dict) else s
                           for s in d.sample_lines(trace, 3, lambda j: j.get("ev") in ("Get", "LRecv"))]
    free_stage(d, run, "lookups kept by the policy queue are not reflected by the estimator (real worker racing the real processor)",
               [("sync", "thread", 4, 16), ("async", "thread", 4, 16)], est=True)
    free_stage(d, run, "parallel lookups: a lookup is not accounted exactly once (in the ring, or in one batch counted kept or dropped)",
               [("sync", "thread", 2, 12), ("async", "thread", 2, 12)], kinds="par")
    _need(d, hist, ["Get", "GetMut", "LRecv", "ClsPolFlag"])
    run.notes["event_histogram"] = hist
    run.nontrivial = len(getattr(run, "_distinct", ()))
    run.rule = ("non-trivial = lookups (hit or miss) and policy-worker steps; after each one the pending batch length, the policy "
                "queue length and gets_kept / gets_dropped of the implementation must equal Ring.tla's, and after a worker step the "
                "estimate of every key must reflect the lookups applied so far (no aging reset possible yet); buffer_items 0,1,2,3,5,64; "
                "both flavours (bounded-3 and unbounded queue); policy worker stepped at arbitrary points; closes included")
    run.assumptions = BASE_ASSUME + ["the upper side of 'reflects' (no over-count beyond sketch collisions) is C13's; here the lower bound"]


def _projection(path):
    """observable projection of a sequential trace: completed public calls with result, callbacks, and store/charges/metrics"""
    out = []
    with open(path) as f:
        for line in f:
            j = json.loads(line)
            ev = j.get("ev")
            if ev == "Init":
                out.append(("Init", j.get("max"), j.get("bufcap")))
                continue
            o = j.get("out", {})
            if o.get("t") in (None, "pending") and ev != "End":
                if j.get("cbs"):
                    out.append(("cb", json.dumps(j["cbs"], sort_keys=True)))
                continue
            p = j.get("post", {})
            met = {k: v for k, v in p.get("met", {}).items()}
            out.append((("End" if ev == "End" else "call"), json.dumps(o, sort_keys=True), json.dumps(j.get("cbs"), sort_keys=True),
                        json.dumps(p.get("store"), sort_keys=True), json.dumps(p.get("costs")), p.get("used"), json.dumps(met, sort_keys=True),
                        json.dumps(j.get("vttl"))))
    return out


def c19(d, run):
    h = cache_stage(d, run, "real AsyncCache deviates from Cache.tla",
                    ["async", "seq"],
                    [("seq", "async", 8, 120), ("conc", "async", 15, 200), ("conc_clear", "async", 10, 120), ("life", "async", 15, 200),
                     ("ttl", "async", 6, 80), ("evict", "async", 10, 120), ("ttl_conc", "async", 6, 80)],
                    ALL_CMP, ALL_INV, nontrivial=("RemSendA", "RemRet", "RemBlock", "PStop", "LStop", "ClsStopSend", "ClsPolSend", "PCleanupKey", "InsBegin", "Get"))
    ring_stage(d, run, [("ring", "async", 10, 80), ("cfg", "async", 10, 70)])
    sim_stage(d, run, "real AsyncCache deviates from Cache.tla", ALL_CMP, ALL_INV, 30, 300, flavors=("async",))
    free_stage(d, run, "AsyncCache's real background tasks violate a state predicate of Cache.tla",
               [("async", "thread", 4, 24), ("async", "pool", 4, 24), ("async", "local", 4, 24), ("sync", "thread", 4, 8)])
    free_stage(d, run, "AsyncCache under parallel clients violates a state predicate of Cache.tla (incl. wait() racing the stopping processor)",
               [("async", "thread", 3, 12), ("async", "pool", 3, 12)], kinds="par,close,close")
    exh_stage(d, run, "real AsyncCache deviates from Cache.tla", "exh_q", ALL_CMP, ALL_INV, flavors=("async",))
    _need(d, h, ["RemSendA", "RemRet", "PStop", "LStop", "ClsStopSend", "PCleanupKey", "PVictim"])
    # same sequential histories on both flavours: observable results must be identical
    pairs = 0
    for prof in ("seq", "seq_internal", "ttl", "below_ttl", "seq_veto"):
        n = 40 if _thorough(run) else 5
        ts = os.path.join(run.workdir, "eq-%s-sync.ndjson" % prof)
        ta = os.path.join(run.workdir, "eq-%s-async.ndjson" % prof)
        d.vh(["cache", "--profile", prof, "--flavor", "sync", "--n", n, "--seed", run.seed + 17, "--out", ts])
        d.vh(["cache", "--profile", prof, "--flavor", "async", "--n", n, "--seed", run.seed + 17, "--out", ta])
        ps, pa = _projection(ts), _projection(ta)
        pairs += n
        if ps != pa:
            k = next((i for i in range(min(len(ps), len(pa))) if ps[i] != pa[i]), min(len(ps), len(pa)))
            run.violation("Cache and AsyncCache differ on the same sequential history (profile %s) at observable step %d: sync=%s async=%s"
                          % (prof, k, str(ps[k] if k < len(ps) else None)[:300], str(pa[k] if k < len(pa) else None)[:300]),
                          replay_lines=open(ta).readlines()[:400], meta={"sync_trace": ts})
        cfg = _trace_cfg(run, "eq", ALL_CMP, ALL_INV)
        for tr in (ts, ta):
            files = d.split_trace(tr, tr + ".chunks", start_events=("Init",), max_lines=1500)
            res = d.validate_chunks("Cache_Trace.tla", cfg, files, run.workdir, par=8, start_events=("Init",))
            d.report_trace_results(run, res, "real cache deviates from Cache.tla [equivalence run %s]" % prof)
        run.traces += 2 * n
    run.notes["sync_async_history_pairs_compared"] = pairs
    run.nontrivial = len(getattr(run, "_distinct", ()))
    run.rule = ("(1) every profile used for the synchronous cache re-run on AsyncCache (parked async processors stepped through the "
                "same handlers the tasks call) and validated against the same specification with Flavor = async; (2) identical "
                "seeded sequential histories executed on both flavours: results, callbacks, resident entries, charges, metrics and "
                "remaining TTLs compared step by step")
    run.assumptions = BASE_ASSUME + ["executor/spawner and polling order: the async processors are parked and stepped by the harness, so the "
                                     "executor's scheduling is replaced by the schedule; free-running executors are covered only through "
                                     "the repository's own async tests"]
    _known(d, run, "D7")


def c20(d, run):
    _drain_liveness(d, run)
    lock_stage(d, run, LOCK_CFG, catalogue=True)
    mc = d.tlc_mc("MC_Config.tla", "MC_Config.cfg", run.workdir, workers=2)
    run.add_mc(mc, "MC_Config (num_counters 0..70 x max_cost {-5,0,1,2,100} x buffer {0,1,2}: validation rule and well-formed dimensions)")
    if mc["violated"]:
        run.violation("Config.tla violates %s" % mc["violated"], replay_lines=[mc["out"][-4000:]])
    r = d.tlc_mc("MC_Sketch.tla", "MC_Sketch.cfg", run.workdir, workers=8)
    run.add_mc(r, "MC_Sketch (num_counters 1,2,3,4,5,8)")
    if r["violated"]:
        run.violation("Sketch.tla violates %s" % r["violated"], replay_lines=[r["out"][-4000:]])
    h = cache_stage(d, run, "a cache built from an accepted configuration deviates from Cache.tla / panics",
                    [],
                    [("cfg", "sync", 70, 560), ("cfg", "async", 35, 280)],
                    ALL_CMP, ALL_INV, nontrivial=("Init", "Finalize", "LRecv", "PVictim", "PCleanupKey"))
    free_stage(d, run, "a cache built from an accepted configuration does not complete its operations (real loops, tiny cleanup intervals, "
               "parallel clients included)",
               [("sync", "thread", 10, 40), ("async", "thread", 5, 25)], kinds="norm,par,drop,tiny,dflt")
    _need(d, h, ["Finalize", "LRecv", "PVictim", "PCleanupKey", "Get"])
    run.nontrivial = len(getattr(run, "_distinct", ()))
    run.rule = ("one instance per configuration: num_counters 1..70 in turn (quick: once each for sync, every second one for async), "
                "max_cost 1..8, buffer size 1..2, buffer_items {0,1,2,64}; each runs inserts, lookups past buffer_items (batches flush and "
                "the policy worker applies them to the small estimator), removes, TTL expiry with ticks and over-capacity inserts; a panic "
                "in any actor is recorded as an event the specification does not have; rejected parameter combinations must return the "
                "specified error kind")
    run.assumptions = BASE_ASSUME + ["one instance in five is built with max_cost = -1 (accepted by the builder: nothing is ever admitted)"]


def _known(d, run, tag):
    for f in d.known_findings().get("findings", []):
        if f.get("id") == tag and run.pid in f.get("properties", []):
            info = d.vh(["scenario", "--name", tag.lower(), "--out", os.path.join(run.workdir, "scenario-%s.ndjson" % tag)])
            if info.get("reproduced"):
                run.known_finding("%s %s" % (tag, f.get("signature")))


CHECKS = {
    "C01": c01,
    "C04": c04,
    "C15": c15,
    "C19": c19,
    "C20": c20,
    "C03": c03,
    "C05": c05,
    "C09": c09,
    "C11": c11,
    "C16": c16,
    "C18": c18,
    "C02": c02,
    "C06": c06,
    "C08": c08,
    "C10": c10,
    "C12": c12,
    "C17": c17,
    "C07": c07,
    "C13": c13,
    "C14": c14,
}


def replay(d, pid, path):
    """Re-validate a saved replay: the recorded events of the offending instance (from its first event to the event the
    specification could not explain / the state that violated an invariant)."""
    comp = {"C13": ("Sketch_Trace.tla", "Sketch_Trace.cfg"), "C14": ("Bloom_Trace.tla", "Bloom_Trace.cfg"),
            "C07": ("Policy_Trace.tla", "Policy_Trace.cfg")}
    first = ""
    try:
        first = json.loads(open(path).readline()).get("ev", "")
    except Exception:
        pass
    if first == "FInit":
        spec = ("Free_Trace.tla", "Free_Trace.cfg")
    elif first == "Init" or first == "Finalize":
        spec = ("Ring_Trace.tla", "Ring_Trace.cfg") if pid == "C15" else ("Cache_Trace.tla", "Cache_Trace.cfg")
    elif first == "new" and pid in comp:
        spec = comp[pid]
    elif first == "new" and pid == "C01":
        spec = ("Policy_Trace.tla", "Policy_Trace.cfg")
    elif first == "new" and pid == "C18":
        spec = ("KeyHash_Trace.tla", "KeyHash_Trace.cfg")
    else:
        d.log("replay %s is not a recorded trace (TLC output of a specification-level violation?): see the file" % path)
        return 2
    r = d.validate_trace(spec[0], spec[1], path, os.path.join(d.WORK, "replay"))
    d.log(json.dumps({k: v for k, v in r.items() if k != "instance_lines"})[:2000])
    if r["status"] == "accepted":
        return 0
    if r["status"] in ("rejected", "invariant"):
        d.log("VIOLATION property=%s replay=%s" % (pid, path))
        return 1
    return 2


def selftest(d):
    rc = 0
    for pid in sorted(CHECKS):
        c, out = d.sh([os.path.join(d.V, "check"), pid])
        d.log("%s -> %d" % (pid, c))
        if c != 0:
            d.log(out[-2000:])
            rc = 1
    return rc
